(* ReprP.v — FromRepr: the constant chain the macro emits IS rustc's discriminant rule,
   and the generated match returns exactly the enabled variant with that discriminant. *)
Require Import Strum.Model.Repr.
From Coq Require Import Lia.
Open Scope Z_scope.

Definition enabled_b (v : variant) : bool :=
  match vprops_of v with Ok p => negb (vp_disabled p) | _ => false end.

Definition nfields (v : variant) : nat := length (field_list (v_fields v)).

(* what an arm must look like for the variant at offset j of the list being walked *)
Definition arm_for (idx : nat) (prev : option Z) (vs : list variant) (a : repr_arm) (j : nat) : Prop :=
  exists v, nth_error vs j = Some v /\ enabled_b v = true /\
            ra_variant a = (idx + j)%nat /\
            nth_error (rustc_discr_from prev vs) j = Some (ra_const a) /\
            ra_nfields a = nfields v.

Lemma repr_arms_spec ty : forall vs idx prev arms,
  repr_arms ty idx prev vs = Ok arms ->
  forall a, In a arms <-> exists j, arm_for idx prev vs a j.
Proof.
  induction vs as [|v r IH]; intros idx prev arms H a.
  - cbn in H. inversion H; subst. split; [intros []|].
    intros [j (v & Hn & _)]. destruct j; discriminate.
  - cbn [repr_arms] in H. unfold bind in H at 1.
    destruct (vprops_of v) as [p| |] eqn:Hp; try discriminate.
    set (c := match v_discr v with Some z => z | None => match prev with Some q => q + 1 | None => 0 end end) in *.
    destruct (negb (in_range ty c)) eqn:Hr; [discriminate|].
    unfold bind in H. destruct (repr_arms ty (S idx) (Some c) r) as [rest| |] eqn:Hrest; try discriminate.
    specialize (IH (S idx) (Some c) rest Hrest).
    assert (Hshift : forall a, (exists j, arm_for (S idx) (Some c) r a j) <->
                               (exists j, arm_for idx prev (v :: r) a (S j))).
    { intro b. split; intros [j (w & Hn & He & Hv & Hd & Hf)]; exists j, w; cbn [nth_error rustc_discr_from];
        fold c; repeat split; auto; lia. }
    destruct (vp_disabled p) eqn:Hd.
    + inversion H; subst arms. rewrite IH, Hshift. split.
      * intros [j Hj]. exists (S j). exact Hj.
      * intros [[|j] Hj].
        -- destruct Hj as (w & Hn & He & _). cbn in Hn. inversion Hn; subst w.
           unfold enabled_b in He. rewrite Hp, Hd in He. discriminate.
        -- exists j. exact Hj.
    + inversion H; subst arms. cbn [In]. rewrite IH, Hshift. split.
      * intros [<- | [j Hj]].
        -- exists 0%nat, v. cbn [nth_error rustc_discr_from ra_variant ra_const ra_nfields]. fold c.
           unfold enabled_b. rewrite Hp, Hd. repeat split; auto; lia.
        -- exists (S j). exact Hj.
      * intros [[|j] Hj].
        -- left. destruct Hj as (w & Hn & He & Hv & Hc & Hf). cbn in Hn. inversion Hn; subst w.
           cbn [nth_error rustc_discr_from] in Hc. fold c in Hc. inversion Hc.
           destruct a as [av ac af]; cbn in *. f_equal; try lia. unfold nfields in Hf. congruence.
        -- right. exists j. exact Hj.
Qed.

Lemma rustc_discr_from_length prev vs : length (rustc_discr_from prev vs) = length vs.
Proof. revert prev; induction vs as [|v r IH]; intro prev; cbn; [reflexivity|]. rewrite IH. reflexivity. Qed.

Lemma NoDup_nth_error_inj {A} (l : list A) i j x :
  NoDup l -> nth_error l i = Some x -> nth_error l j = Some x -> i = j.
Proof.
  intros Hnd Hi Hj. apply (proj1 (NoDup_nth_error l) Hnd).
  - apply nth_error_Some. congruence.
  - congruence.
Qed.

Section FromRepr.
Variable it : item.
Variable c : from_repr_code.
Hypothesis Hgen : gen_from_repr it = Ok c.
Local Notation vs := (i_variants it).

Lemma gen_arms : repr_arms (fr_ty c) 0 None vs = Ok (fr_arms c) /\ i_kind it = KEnum
                 /\ fr_ty c = discr_ty (i_repr it)
                 /\ fr_const c = forallb (fun a => (ra_nfields a =? 0)%nat) (fr_arms c).
Proof.
  unfold gen_from_repr in Hgen. destruct (0 <? i_lifetimes it)%nat; [discriminate|].
  unfold enum_variants in Hgen. destruct (i_kind it) eqn:Hk; try discriminate.
  cbn [bind] in Hgen. unfold bind in Hgen.
  destruct (repr_arms (discr_ty (i_repr it)) 0 None (i_variants it)) eqn:Ha; try discriminate.
  inversion Hgen; subst c; cbn. auto.
Qed.

(* the value rustc assigns to the variant at index i *)
Definition discr_at (i : nat) : option Z := nth_error (rustc_discr vs) i.

Theorem from_repr_iff (Hnd : NoDup (rustc_discr vs)) x i nf :
  run_from_repr c x = Some (i, nf) <->
  exists v, nth_error vs i = Some v /\ enabled_b v = true /\ discr_at i = Some x /\ nf = nfields v.
Proof.
  destruct gen_arms as (Ha & _). pose proof (repr_arms_spec _ _ _ _ _ Ha) as S.
  unfold run_from_repr. split.
  - destruct (find _ _) as [a|] eqn:Hf; [|discriminate]. intros [= <- <-].
    apply find_some in Hf as [Hin Hx]. apply Z.eqb_eq in Hx.
    apply S in Hin as [j (v & Hn & He & Hv & Hd & Hnf)]. cbn in Hv. subst j.
    exists v. unfold discr_at, rustc_discr. rewrite Hd, Hx. auto.
  - intros (v & Hn & He & Hd & ->).
    destruct (find _ _) as [a|] eqn:Hf.
    + apply find_some in Hf as [Hin Hx]. apply Z.eqb_eq in Hx.
      apply S in Hin as [j (w & Hn' & He' & Hv' & Hd' & Hnf')]. cbn in Hv'.
      assert (j = i). { eapply NoDup_nth_error_inj; [exact Hnd| |exact Hd]. unfold rustc_discr. rewrite Hd', Hx. reflexivity. }
      subst j. rewrite H in *. rewrite Hn in Hn'. inversion Hn'; subst w. rewrite Hnf'. reflexivity.
    + exfalso. assert (Hin : In {| ra_variant := i; ra_const := x; ra_nfields := nfields v |} (fr_arms c)).
      { apply S. exists i, v. cbn. repeat split; auto. }
      eapply find_none in Hf; [|exact Hin]. cbn in Hf. rewrite Z.eqb_refl in Hf. discriminate.
Qed.

Corollary from_repr_none (Hnd : NoDup (rustc_discr vs)) x :
  run_from_repr c x = None <->
  forall i v, nth_error vs i = Some v -> enabled_b v = true -> discr_at i <> Some x.
Proof.
  split.
  - intros Hn i v Hi He Hd.
    assert (run_from_repr c x = Some (i, nfields v)) as E by (apply from_repr_iff; eauto).
    congruence.
  - intros H. destruct (run_from_repr c x) as [[i nf]|] eqn:E; [|reflexivity].
    apply from_repr_iff in E as (v & Hn & He & Hd & _); auto. exfalso. eapply H; eauto.
Qed.

(* E::from_repr(v as R) == Some(v) for every enabled field-less v *)
Corollary from_repr_roundtrip (Hnd : NoDup (rustc_discr vs)) i v d :
  nth_error vs i = Some v -> enabled_b v = true -> v_fields v = FUnit -> discr_at i = Some d ->
  run_from_repr c d = Some (i, 0%nat).
Proof.
  intros Hn He Hu Hd. apply from_repr_iff; auto. exists v. unfold nfields. rewrite Hu. auto.
Qed.

(* a disabled variant is never produced *)
Corollary from_repr_never_disabled (Hnd : NoDup (rustc_discr vs)) x i nf v :
  run_from_repr c x = Some (i, nf) -> nth_error vs i = Some v -> enabled_b v = true.
Proof. intros H Hn. apply from_repr_iff in H as (w & Hw & He & _); auto. congruence. Qed.

(* `const fn` exactly when no enabled variant carries data *)
Theorem from_repr_const :
  fr_const c = true <-> forall i v, nth_error vs i = Some v -> enabled_b v = true -> nfields v = 0%nat.
Proof.
  destruct gen_arms as (Ha & _ & _ & Hc). pose proof (repr_arms_spec _ _ _ _ _ Ha) as S.
  rewrite Hc, forallb_forall. split.
  - intros H i v Hn He.
    assert (Hin : In {| ra_variant := i; ra_const := match discr_at i with Some d => d | None => 0 end;
                        ra_nfields := nfields v |} (fr_arms c)).
    { apply S. exists i, v. cbn. repeat split; auto. unfold discr_at, rustc_discr.
      destruct (nth_error (rustc_discr_from None vs) i) eqn:E; [reflexivity|].
      apply nth_error_None in E. rewrite rustc_discr_from_length in E.
      assert (i < length vs)%nat by (apply nth_error_Some; congruence). lia. }
    apply H in Hin. cbn in Hin. apply Nat.eqb_eq in Hin. exact Hin.
  - intros H a Hin. apply S in Hin as [j (v & Hn & He & _ & _ & Hnf)].
    apply Nat.eqb_eq. rewrite Hnf. eapply H; eauto.
Qed.
End FromRepr.

(* the generator succeeds on the whole documented domain *)
Lemma repr_arms_total ty : forall vs idx prev,
  Forall (fun v => exists p, vprops_of v = Ok p) vs ->
  Forall (fun d => in_range ty d = true) (rustc_discr_from prev vs) ->
  exists arms, repr_arms ty idx prev vs = Ok arms.
Proof.
  induction vs as [|v r IH]; intros idx prev Hp Hr; [eexists; reflexivity|].
  inversion Hp as [|? ? [p Hv] Hp']; subst. cbn [rustc_discr_from] in Hr.
  inversion Hr as [|? ? Hd Hr']; subst.
  cbn [repr_arms]. rewrite Hv. cbn [bind]. rewrite Hd. cbn [negb].
  destruct (IH (S idx) _ Hp' Hr') as [rest ->]. cbn [bind]. destruct (vp_disabled p); eexists; reflexivity.
Qed.

Theorem gen_from_repr_total it :
  i_kind it = KEnum -> i_lifetimes it = 0%nat ->
  Forall (fun v => exists p, vprops_of v = Ok p) (i_variants it) ->
  Forall (fun d => in_range (discr_ty (i_repr it)) d = true) (rustc_discr (i_variants it)) ->
  exists c, gen_from_repr it = Ok c.
Proof.
  intros Hk Hl Hp Hr. unfold gen_from_repr, enum_variants. rewrite Hl, Hk. cbn [Nat.ltb Nat.leb bind].
  destruct (repr_arms_total _ _ 0%nat None Hp Hr) as [arms ->]. cbn [bind]. eexists; reflexivity.
Qed.
