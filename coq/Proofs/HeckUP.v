(* HeckUP.v — proofs of Spec/StatementsU.v: heck's scanner over an arbitrary character database against the
   position-local boundary rule, the shape of every style, and the fact that Model/Heck.v is the ASCII instance. *)
Require Export Strum.Spec.StatementsU.
Require Import Strum.Proofs.BytesP Strum.Proofs.HeckP.
From Coq Require Import Lia.
Local Open Scope N_scope.
Local Open Scope list_scope.

Section GenericU.
Variable U : ucd.
Hypothesis DJ : lower_upper_disjoint U.

Definition ulc_eqb (a b : lastcase) : bool :=
  match a, b with LCnone, LCnone | LClower, LClower | LCupper, LCupper => true | _, _ => false end.

Fixpoint uspec_after (w : ustr) (l : lastcase) (cur : ustr) : list ustr :=
  match w with
  | [] => []
  | c :: rest =>
    let l' := ulc_upd U l c in
    match rest with
    | [] => [rev (c :: cur)]
    | next :: _ =>
      if ulc_eqb l' LClower && u_upper U next then rev (c :: cur) :: uspec_after rest l' []
      else if ulc_eqb l LCupper && u_upper U c && u_lower U next then rev cur :: uspec_after rest l' [c]
      else uspec_after rest l' (c :: cur)
    end
  end.

Definition umode_of (l : lastcase) : mode :=
  match l with LCnone => MBoundary | LClower => MLower | LCupper => MUpper end.
Definition ucompat (m : mode) (l : lastcase) (c : N) : Prop :=
  m = umode_of l \/ (m = MBoundary /\ u_lower U c = true) \/ (m = MBoundary /\ u_upper U c = true /\ l = LClower).

Lemma useg_words_after : forall rest c m l cur,
  ucompat m l c -> useg_words U (c :: rest) m cur = uspec_after (c :: rest) l cur.
Proof.
  induction rest as [|next rest IH]; intros c m l cur Hc; [reflexivity|].
  cbn [useg_words uspec_after].
  set (nm := if u_lower U c then MLower else if u_upper U c then MUpper else m).
  assert (Hnm : mode_eqb nm MLower = ulc_eqb (ulc_upd U l c) LClower).
  { unfold nm, ulc_upd. destruct (u_lower U c) eqn:Hl; [reflexivity|].
    destruct (u_upper U c) eqn:Hu; [reflexivity|].
    destruct Hc as [-> | [[_ H] | [_ [H _]]]]; try congruence. destruct l; reflexivity. }
  assert (Hr2 : mode_eqb m MUpper && u_upper U c = ulc_eqb l LCupper && u_upper U c).
  { destruct Hc as [-> | [[-> H] | [-> [H ->]]]].
    - destruct l; reflexivity.
    - rewrite (DJ _ H), !andb_false_r. reflexivity.
    - reflexivity. }
  rewrite Hnm, Hr2.
  destruct (ulc_eqb (ulc_upd U l c) LClower && u_upper U next) eqn:R1.
  - f_equal. apply IH. right. right. apply andb_true_iff in R1 as [A B].
    repeat split; auto. destruct (ulc_upd U l c); cbn in A; congruence.
  - destruct (ulc_eqb l LCupper && u_upper U c && u_lower U next) eqn:R2.
    + f_equal. apply IH. right. left. apply andb_true_iff in R2 as [_ B]. auto.
    + apply IH. left. unfold nm, ulc_upd.
      destruct (u_lower U c) eqn:Hl; [reflexivity|]. destruct (u_upper U c) eqn:Hu; [reflexivity|].
      destruct Hc as [-> | [[_ H] | [_ [H _]]]]; congruence.
Qed.

Definition ubnd2 (l : lastcase) (c : N) (next : option N) : bool :=
  u_upper U c && ulc_eqb l LCupper && match next with Some n => u_lower U n | None => false end.
Definition uspec_cut_first (w : ustr) (l : lastcase) (cur : ustr) : list ustr :=
  match w with
  | [] => [rev cur]
  | c :: rest => if ubnd2 l c (hd_error rest) then rev cur :: uspec_cut U rest (ulc_upd U l c) [c]
                 else uspec_cut U rest (ulc_upd U l c) (c :: cur)
  end.

Lemma ucut_first_eq : forall w l cur,
  (match w with c :: _ => ulc_eqb l LClower && u_upper U c = false | [] => True end) ->
  uspec_cut_first w l cur = uspec_cut U w l cur.
Proof.
  intros [|c rest] l cur H; [reflexivity|]. cbn [uspec_cut_first uspec_cut].
  replace (ubnd2 l c (hd_error rest)) with (uboundary_before U l c (hd_error rest)); [reflexivity|].
  unfold uboundary_before, ubnd2. destruct (u_upper U c); [|reflexivity].
  destruct l; cbn in *; try congruence; try reflexivity.
Qed.

Lemma uspec_after_cons2 c next rest l cur :
  uspec_after (c :: next :: rest) l cur =
      if ulc_eqb (ulc_upd U l c) LClower && u_upper U next then rev (c :: cur) :: uspec_after (next :: rest) (ulc_upd U l c) []
      else if ulc_eqb l LCupper && u_upper U c && u_lower U next then rev cur :: uspec_after (next :: rest) (ulc_upd U l c) [c]
      else uspec_after (next :: rest) (ulc_upd U l c) (c :: cur).
Proof. reflexivity. Qed.

Lemma uafter_cut_first : forall rest c l cur,
  uspec_after (c :: rest) l cur = uspec_cut_first (c :: rest) l cur.
Proof.
  induction rest as [|next rest IH]; intros c l cur.
  - cbn. unfold ubnd2. cbn. rewrite andb_false_r. reflexivity.
  - rewrite uspec_after_cons2. cbn [uspec_cut_first hd_error].
    destruct (ulc_eqb (ulc_upd U l c) LClower && u_upper U next) eqn:R1.
    + apply andb_true_iff in R1 as [A B].
      assert (ubnd2 l c (Some next) = false) as ->.
      { unfold ubnd2. destruct (u_lower U next) eqn:Hl; [|apply andb_false_r].
        rewrite (DJ _ Hl) in B. discriminate. }
      cbn [uspec_cut]. assert (uboundary_before U (ulc_upd U l c) next (hd_error rest) = true) as ->.
      { unfold uboundary_before. rewrite B. destruct (ulc_upd U l c); cbn in A; try discriminate A; reflexivity. }
      f_equal. rewrite IH. cbn [uspec_cut_first].
      assert (ubnd2 (ulc_upd U l c) next (hd_error rest) = false) as ->; [|reflexivity].
      unfold ubnd2. destruct (ulc_upd U l c); cbn in A; try discriminate A. cbn. rewrite andb_false_r. reflexivity.
    + destruct (ulc_eqb l LCupper && u_upper U c && u_lower U next) eqn:R2.
      * assert (ubnd2 l c (Some next) = true) as ->.
        { unfold ubnd2. apply andb_true_iff in R2 as [R2 C]. apply andb_true_iff in R2 as [A B].
          rewrite A, B, C. reflexivity. }
        f_equal. rewrite IH. apply ucut_first_eq.
        apply andb_true_iff in R2 as [_ C]. rewrite (DJ _ C). apply andb_false_r.
      * assert (ubnd2 l c (Some next) = false) as ->.
        { unfold ubnd2. rewrite <- R2. rewrite (andb_comm (u_upper U c)). reflexivity. }
        rewrite IH. apply ucut_first_eq. exact R1.
Qed.

Lemma useg_words_spec w : useg_words U w MBoundary [] = uspec_seg_words U w.
Proof.
  destruct w as [|c rest]; [reflexivity|]. unfold uspec_seg_words.
  rewrite (useg_words_after rest c MBoundary LCnone []); [|left; reflexivity].
  rewrite uafter_cut_first. apply ucut_first_eq. reflexivity.
Qed.

Lemma uheck_words_spec id : uheck_words U id = uspec_words U id.
Proof. unfold uheck_words, uspec_words. apply flat_map_ext. intro w. apply useg_words_spec. Qed.

Lemma ufirst_rest_same (g : ustr -> ustr) (l : list ustr) :
  match l with [] => [] | w :: r => g w :: map g r end = map g l.
Proof. destruct l; reflexivity. Qed.

Lemma ustyled_same sep wc id : ustyled U sep wc wc id = ujoin sep (map (uapply_case U wc) (uheck_words U id)).
Proof. unfold ustyled. rewrite ufirst_rest_same, uheck_words_spec. reflexivity. Qed.

Lemma ustyle_generic st id :
  uconvert_case U (Some st) id =
  match st with
  | SnakeCase => ustyled U [95] WLower WLower id
  | KebabCase => ustyled U [45] WLower WLower id
  | ShoutySnakeCase => ustyled U [95] WUpper WUpper id
  | TitleCase => ustyled U [32] WCapital WCapital id
  | TrainCase => ustyled U [45] WCapital WCapital id
  | PascalCase => ustyled U [] WCapital WCapital id
  | MixedCase => ustyled U [] WLower WCapital id
  | CamelCase => match ustyled U [] WCapital WCapital id with [] => [] | c :: r => u_lo U c ++ r end
  | ScreamingKebabCase => flat_map (u_up U) (ustyled U [45] WLower WLower id)
  | UpperCase => flat_map (u_up U) id
  | LowerCase => flat_map (u_lo U) id
  end.
Proof.
  destruct st; cbn [uconvert_case]; try rewrite !ustyled_same; try reflexivity.
  unfold uto_lower_camel, ustyled. rewrite uheck_words_spec. reflexivity.
Qed.

Lemma usnakify_generic id : usnakify U id = usnakify_go None (ustyled U [95] WLower WLower id).
Proof. unfold usnakify. rewrite ustyled_same. reflexivity. Qed.
End GenericU.

Lemma C07u_words_spec_proof : stmt_C07u_words_spec.
Proof. unfold stmt_C07u_words_spec. intros U DJ w. apply useg_words_spec. exact DJ. Qed.

Lemma C07u_style_proof : stmt_C07u_style.
Proof. unfold stmt_C07u_style. intros U DJ st id. apply ustyle_generic. exact DJ. Qed.

Lemma C13u_snakify_digits_proof : stmt_C13u_snakify_digits.
Proof. unfold stmt_C13u_snakify_digits. intros U DJ id. apply usnakify_generic. exact DJ. Qed.

(* ======================= tables ======================= *)
Lemma ulookup_in t c e : ulookup t c = Some e -> In e t.
Proof.
  induction t as [|x t IH]; cbn [ulookup]; [discriminate|].
  destruct (e_cp x =? c); [intros [= ->]; left; reflexivity|intro H; right; apply IH; exact H].
Qed.

Lemma C07u_table_disjoint_proof : stmt_C07u_table_disjoint.
Proof.
  unfold stmt_C07u_table_disjoint, lower_upper_disjoint, table_disjoint. intros t H c.
  cbn [ucd_of_table u_lower u_upper]. destruct (ulookup t c) as [e|] eqn:E; [|discriminate].
  apply ulookup_in in E. rewrite forallb_forall in H. specialize (H e E).
  intro Hl. rewrite Hl in H. cbn in H. destruct (e_upper e); [discriminate H|reflexivity].
Qed.

Lemma C07u_camel_not_mixed_proof : stmt_C07u_camel_not_mixed.
Proof.
  unfold stmt_C07u_camel_not_mixed.
  pose (mk := fun cp lo up al l u => {| e_cp := cp; e_lower := lo; e_upper := up; e_alnum := al; e_lo := l; e_up := u |}).
  exists [mk 223 true false true [223] [83; 83]; mk 83 false true true [115] [83]; mk 115 true false true [115] [83];
          mk 101 true false true [101] [69]; mk 116 true false true [116] [84]; mk 97 true false true [97] [65];
          mk 69 false true true [101] [69]; mk 84 false true true [116] [84]; mk 65 false true true [97] [65];
          mk 95 false false false [95] [95]; mk 45 false false false [45] [45]; mk 32 false false false [32] [32]].
  exists [223; 101; 116; 97].
  repeat split; try (vm_compute; reflexivity). vm_compute. discriminate.
Qed.

(* ======================= the ASCII instance is Heck.v ======================= *)
Lemma byte_lt c : byte c < 256.
Proof. unfold byte. apply N_ascii_bounded. Qed.
Lemma a_of_byte c : a_of (byte c) = c.
Proof. unfold a_of, byte. apply ascii_N_embedding. Qed.
Lemma byte_ltb c : (byte c <? 256) = true.
Proof. apply N.ltb_lt. apply byte_lt. Qed.

Lemma A_lower c : u_lower ascii_ucd (byte c) = is_lower c.
Proof. cbn [ascii_ucd u_lower]. rewrite byte_ltb, a_of_byte. reflexivity. Qed.
Lemma A_upper c : u_upper ascii_ucd (byte c) = is_upper c.
Proof. cbn [ascii_ucd u_upper]. rewrite byte_ltb, a_of_byte. reflexivity. Qed.
Lemma A_alnum c : u_alnum ascii_ucd (byte c) = is_alnum c.
Proof. cbn [ascii_ucd u_alnum]. rewrite byte_ltb, a_of_byte. reflexivity. Qed.
Lemma A_lo c : u_lo ascii_ucd (byte c) = [byte (to_lower c)].
Proof. cbn [ascii_ucd u_lo]. rewrite byte_ltb, a_of_byte. reflexivity. Qed.
Lemma A_up c : u_up ascii_ucd (byte c) = [byte (to_upper c)].
Proof. cbn [ascii_ucd u_up]. rewrite byte_ltb, a_of_byte. reflexivity. Qed.

Lemma A_disjoint : lower_upper_disjoint ascii_ucd.
Proof.
  intros n. cbn [ascii_ucd u_lower u_upper]. destruct (n <? 256); [|discriminate]. cbn [andb].
  apply lower_not_upper.
Qed.

Local Notation mb := (map byte).

Lemma rev_mb c cur : rev (byte c :: mb cur) = mb (rev (c :: cur)).
Proof. change (byte c :: mb cur) with (mb (c :: cur)). symmetry. apply map_rev. Qed.
Lemma rev_mb0 cur : rev (mb cur) = mb (rev cur).
Proof. symmetry. apply map_rev. Qed.

Lemma A_seg_words : forall w m cur, useg_words ascii_ucd (mb w) m (mb cur) = map mb (seg_words w m cur).
Proof.
  induction w as [|c rest IH]; intros m cur; [reflexivity|].
  destruct rest as [|next rest'].
  - cbn [map useg_words seg_words]. rewrite rev_mb. reflexivity.
  - change (mb (c :: next :: rest')) with (byte c :: byte next :: mb rest').
    change (useg_words ascii_ucd (byte c :: byte next :: mb rest') m (mb cur)) with
      (let next_mode := if u_lower ascii_ucd (byte c) then MLower else if u_upper ascii_ucd (byte c) then MUpper else m in
       if mode_eqb next_mode MLower && u_upper ascii_ucd (byte next) then
         rev (byte c :: mb cur) :: useg_words ascii_ucd (byte next :: mb rest') MBoundary []
       else if mode_eqb m MUpper && u_upper ascii_ucd (byte c) && u_lower ascii_ucd (byte next) then
         rev (mb cur) :: useg_words ascii_ucd (byte next :: mb rest') MBoundary [byte c]
       else useg_words ascii_ucd (byte next :: mb rest') next_mode (byte c :: mb cur)).
    rewrite seg_words_cons2. cbv zeta. rewrite !A_lower, !A_upper.
    destruct (mode_eqb (if is_lower c then MLower else if is_upper c then MUpper else m) MLower && is_upper next).
    + cbn [map]. f_equal; [apply rev_mb|]. apply (IH MBoundary []).
    + destruct (mode_eqb m MUpper && is_upper c && is_lower next).
      * cbn [map]. f_equal; [apply rev_mb0|]. apply (IH MBoundary [c]).
      * apply (IH _ (c :: cur)).
Qed.

Lemma A_split : forall s cur, usplit_alnum ascii_ucd (mb s) (mb cur) = map mb (split_alnum s cur).
Proof.
  induction s as [|c r IH]; intro cur; cbn [map usplit_alnum split_alnum].
  - rewrite rev_mb0. reflexivity.
  - rewrite A_alnum. destruct (is_alnum c).
    + apply (IH (c :: cur)).
    + cbn [map]. f_equal; [apply rev_mb0|]. apply (IH []).
Qed.

Lemma flat_map_map {A B C} (f : A -> B) (g : B -> list C) l : flat_map g (map f l) = flat_map (fun x => g (f x)) l.
Proof. induction l as [|x l IH]; cbn; [reflexivity|]. rewrite IH. reflexivity. Qed.
Lemma map_flat_map {A B C} (f : B -> C) (g : A -> list B) l : map f (flat_map g l) = flat_map (fun x => map f (g x)) l.
Proof. induction l as [|x l IH]; cbn; [reflexivity|]. rewrite map_app, IH. reflexivity. Qed.

Lemma A_words id : uheck_words ascii_ucd (mb id) = map mb (heck_words id).
Proof.
  unfold uheck_words, heck_words. pose proof (A_split id []) as HS. cbn [map] in HS. rewrite HS. clear HS. rewrite flat_map_map, map_flat_map.
  apply flat_map_ext. intro seg. apply (A_seg_words seg MBoundary []).
Qed.

Lemma A_lowercase w : ulowercase ascii_ucd (mb w) = mb (lowercase w).
Proof. unfold ulowercase, lowercase. induction w as [|c r IH]; [reflexivity|]. cbn [map flat_map]. rewrite A_lo, IH. reflexivity. Qed.
Lemma A_uppercase w : uuppercase ascii_ucd (mb w) = mb (uppercase w).
Proof. unfold uuppercase, uppercase. induction w as [|c r IH]; [reflexivity|]. cbn [map flat_map]. rewrite A_up, IH. reflexivity. Qed.
Lemma A_capitalize w : ucapitalize ascii_ucd (mb w) = mb (capitalize w).
Proof.
  destruct w as [|c r]; [reflexivity|]. cbn [map ucapitalize capitalize]. rewrite A_up, A_lowercase. reflexivity.
Qed.

Lemma A_join sep : forall ws, ujoin (mb sep) (map mb ws) = mb (join sep ws).
Proof.
  induction ws as [|w r IH]; [reflexivity|]. destruct r as [|w' r]; [reflexivity|].
  rewrite join_cons2. change (map mb (w :: w' :: r)) with (mb w :: mb w' :: map mb r).
  change (ujoin (mb sep) (mb w :: mb w' :: map mb r)) with (mb w ++ mb sep ++ ujoin (mb sep) (mb w' :: map mb r)).
  change (mb w' :: map mb r) with (map mb (w' :: r)). rewrite IH, !map_app. reflexivity.
Qed.

Lemma A_join_words sep (g : str -> str) (ug : ustr -> ustr) ws :
  (forall w, ug (mb w) = mb (g w)) -> ujoin (mb sep) (map ug (map mb ws)) = mb (join sep (map g ws)).
Proof.
  intro H. rewrite <- A_join. f_equal. rewrite !map_map. apply map_ext. intro w. apply H.
Qed.

Lemma A_upper_camel id : uto_upper_camel ascii_ucd (mb id) = mb (to_upper_camel id).
Proof. unfold uto_upper_camel, to_upper_camel. rewrite A_words. apply (A_join_words [] capitalize). apply A_capitalize. Qed.
Lemma A_kebab id : uto_kebab ascii_ucd (mb id) = mb (to_kebab id).
Proof. unfold uto_kebab, to_kebab. rewrite A_words. apply (A_join_words ["-"%char] lowercase). apply A_lowercase. Qed.
Lemma A_snake id : uto_snake ascii_ucd (mb id) = mb (to_snake id).
Proof. unfold uto_snake, to_snake. rewrite A_words. apply (A_join_words ["_"%char] lowercase). apply A_lowercase. Qed.

Lemma A_convert st id : uconvert_case ascii_ucd st (mb id) = mb (convert_case st id).
Proof.
  destruct st as [st|]; [|reflexivity].
  destruct st; cbn [uconvert_case convert_case].
  - (* CamelCase *)
    rewrite A_upper_camel. destruct (to_upper_camel id) as [|c r]; [reflexivity|].
    cbn [map]. rewrite A_lo. reflexivity.
  - apply A_kebab.
  - (* MixedCase *)
    unfold uto_lower_camel, to_lower_camel. rewrite A_words.
    destruct (heck_words id) as [|w r]; [reflexivity|]. cbn [map]. rewrite A_lowercase.
    change (mb (lowercase w) :: map (ucapitalize ascii_ucd) (map mb r)) with
      (map mb [lowercase w] ++ map (ucapitalize ascii_ucd) (map mb r)).
    replace (map (ucapitalize ascii_ucd) (map mb r)) with (map mb (map capitalize r))
      by (rewrite !map_map; apply map_ext; intro x; symmetry; apply A_capitalize).
    rewrite <- map_app. apply (A_join []).
  - unfold uto_shouty_snake, to_shouty_snake. rewrite A_words. apply (A_join_words ["_"%char] uppercase). apply A_uppercase.
  - apply A_snake.
  - unfold uto_title, to_title. rewrite A_words. apply (A_join_words [" "%char] capitalize). apply A_capitalize.
  - apply A_uppercase.
  - apply A_lowercase.
  - rewrite A_kebab. apply A_uppercase.
  - apply A_upper_camel.
  - unfold uto_train, to_train. rewrite A_words. apply (A_join_words ["-"%char] capitalize). apply A_capitalize.
Qed.

Lemma A_digit c : u_digit (byte c) = is_digit c.
Proof. reflexivity. Qed.

Lemma A_snakify_go : forall s prev, usnakify_go (option_map byte prev) (mb s) = mb (snakify_go prev s).
Proof.
  induction s as [|c r IH]; intro prev; [reflexivity|].
  cbn [map usnakify_go snakify_go]. rewrite map_app, <- (IH (Some c)). cbn [option_map]. f_equal.
  rewrite A_digit. destruct prev as [p|]; cbn [option_map]; [rewrite A_digit|];
    destruct (is_digit c); cbn; try destruct (is_digit p); reflexivity.
Qed.

Lemma C07u_ascii_instance_proof : stmt_C07u_ascii_instance.
Proof.
  unfold stmt_C07u_ascii_instance. split; [exact A_disjoint|]. intro id. split; [intro st; apply A_convert|].
  unfold usnakify, snakify. rewrite A_snake. apply (A_snakify_go _ None).
Qed.

Print Assumptions C07u_words_spec_proof.
Print Assumptions C07u_style_proof.
Print Assumptions C07u_table_disjoint_proof.
Print Assumptions C07u_ascii_instance_proof.
Print Assumptions C07u_camel_not_mixed_proof.
Print Assumptions C13u_snakify_digits_proof.
