(* BytesP.v — facts about the byte-level string operations of Model/Bytes.v *)
Require Import Strum.Model.Bytes.
From Coq Require Import Lia.

Lemma str_eqb_spec a b : str_eqb a b = true <-> a = b.
Proof.
  revert b; induction a as [|x a IH]; intros [|y b]; cbn; split; try congruence; try discriminate.
  - intro H. apply andb_true_iff in H as [H1 H2]. apply Ascii.eqb_eq in H1. apply IH in H2. congruence.
  - intros [= -> ->]. rewrite Ascii.eqb_refl. apply IH. reflexivity.
Qed.
Lemma str_eqb_refl a : str_eqb a a = true.
Proof. apply str_eqb_spec. reflexivity. Qed.
Lemma str_eqb_neq a b : str_eqb a b = false <-> a <> b.
Proof. split.
  - intros H E. apply str_eqb_spec in E. congruence.
  - intros H. destruct (str_eqb a b) eqn:E; [apply str_eqb_spec in E; contradiction|reflexivity].
Qed.
Lemma str_eqb_sym a b : str_eqb a b = str_eqb b a.
Proof. destruct (str_eqb a b) eqn:E.
  - apply str_eqb_spec in E. subst. symmetry. apply str_eqb_refl.
  - symmetry. apply str_eqb_neq. apply str_eqb_neq in E. congruence.
Qed.

Lemma mem_str_In x l : mem_str x l = true <-> In x l.
Proof. induction l as [|y r IH]; cbn; [split; [discriminate|intros []]|].
  rewrite orb_true_iff, IH, str_eqb_spec. split; intros [H|H]; auto. Qed.

(* ---- ASCII case folding (C12) ---- *)
Definition all_ascii : list ascii := map (fun n => ascii_of_nat n) (seq 0 256).
Lemma all_ascii_complete : forall a, In a all_ascii.
Proof. intro a. unfold all_ascii. apply in_map_iff. exists (nat_of_ascii a). split.
  - apply ascii_nat_embedding. - apply in_seq. pose proof (nat_ascii_bounded a). lia. Qed.

(* a property of two bytes that holds on all 256 x 256 pairs holds for all bytes *)
Lemma forall2_ascii (P : ascii -> ascii -> bool) :
  forallb (fun a => forallb (P a) all_ascii) all_ascii = true -> forall a b, P a b = true.
Proof. intros H a b. rewrite forallb_forall in H. specialize (H a (all_ascii_complete a)).
  rewrite forallb_forall in H. exact (H b (all_ascii_complete b)). Qed.
Lemma forall1_ascii (P : ascii -> bool) :
  forallb P all_ascii = true -> forall a, P a = true.
Proof. intros H a. rewrite forallb_forall in H. exact (H a (all_ascii_complete a)). Qed.

(* u8::eq_ignore_ascii_case: equal, or both ASCII letters that differ exactly in bit 0x20 *)
Definition fold_spec (a b : ascii) : bool :=
  Ascii.eqb a b || (is_alpha a && is_alpha b && (N.lxor (byte a) (byte b) =? 32)%N).
Lemma eq_ic_spec a b : eq_ic a b = fold_spec a b.
Proof.
  apply eqb_prop. revert a b. apply forall2_ascii. vm_compute. reflexivity.
Qed.
Lemma eq_ic_refl a : eq_ic a a = true.
Proof. unfold eq_ic. apply Ascii.eqb_refl. Qed.
Lemma eq_ic_sym a b : eq_ic a b = eq_ic b a.
Proof. unfold eq_ic. apply Ascii.eqb_sym. Qed.
Lemma eq_ic_trans a b c : eq_ic a b = true -> eq_ic b c = true -> eq_ic a c = true.
Proof. unfold eq_ic. intros H1 H2. apply Ascii.eqb_eq in H1, H2. apply Ascii.eqb_eq. congruence. Qed.
(* a non-ASCII byte only matches itself *)
Lemma eq_ic_non_ascii a b : is_ascii a = false -> eq_ic a b = true -> a = b.
Proof.
  intros H1 H2. apply Ascii.eqb_eq.
  assert (G : forall x y, implb (negb (is_ascii x) && eq_ic x y) (Ascii.eqb x y) = true).
  { apply forall2_ascii. vm_compute. reflexivity. }
  specialize (G a b). rewrite H1, H2 in G. exact G.
Qed.
(* a byte that is not an ASCII letter only matches itself *)
Lemma eq_ic_non_alpha a b : is_alpha a = false -> eq_ic a b = true -> a = b.
Proof.
  intros H1 H2. apply Ascii.eqb_eq.
  assert (G : forall x y, implb (negb (is_alpha x) && eq_ic x y) (Ascii.eqb x y) = true).
  { apply forall2_ascii. vm_compute. reflexivity. }
  specialize (G a b). rewrite H1, H2 in G. exact G.
Qed.

Lemma eq_ic_str_spec a b : eq_ic_str a b = true <-> Forall2 (fun x y => eq_ic x y = true) a b.
Proof.
  revert b; induction a as [|x a IH]; intros [|y b]; cbn; split; intro H; try discriminate; try constructor;
    try (inversion H; fail).
  - apply andb_true_iff in H as [H _]. exact H.
  - apply andb_true_iff in H as [_ H]. apply IH. exact H.
  - inversion H; subst. apply andb_true_iff. split; [assumption|apply IH; assumption].
Qed.
Lemma eq_ic_str_refl a : eq_ic_str a a = true.
Proof. induction a; cbn; [reflexivity|]. rewrite eq_ic_refl. exact IHa. Qed.
Lemma eq_ic_str_sym a b : eq_ic_str a b = eq_ic_str b a.
Proof. revert b; induction a as [|x a IH]; intros [|y b]; cbn; try reflexivity. rewrite eq_ic_sym, IH. reflexivity. Qed.
Lemma eq_ic_str_trans a b c : eq_ic_str a b = true -> eq_ic_str b c = true -> eq_ic_str a c = true.
Proof.
  revert b c; induction a as [|x a IH]; intros [|y b] [|z c]; cbn; try discriminate; auto.
  intros H1 H2. apply andb_true_iff in H1 as [A1 A2]. apply andb_true_iff in H2 as [B1 B2].
  apply andb_true_iff. split; [eapply eq_ic_trans; eauto|eapply IH; eauto].
Qed.
Lemma eq_ic_str_length a b : eq_ic_str a b = true -> length a = length b.
Proof. revert b; induction a as [|x a IH]; intros [|y b]; cbn; try discriminate; auto.
  intro H. apply andb_true_iff in H as [_ H]. f_equal. apply IH. exact H. Qed.
Lemma str_eqb_eq_ic a b : str_eqb a b = true -> eq_ic_str a b = true.
Proof. intro H. apply str_eqb_spec in H. subst. apply eq_ic_str_refl. Qed.

(* folding to lower case decides eq_ic_str *)
Lemma eq_ic_str_lower a b : eq_ic_str a b = str_eqb (lower_str a) (lower_str b).
Proof. revert b; induction a as [|x a IH]; intros [|y b]; cbn; try reflexivity. rewrite IH. reflexivity. Qed.
Lemma eq_ic_lower_str a : eq_ic_str (lower_str a) a = true.
Proof. induction a as [|x a IH]; cbn; [reflexivity|]. rewrite IH, andb_true_r.
  assert (G : forall x, eq_ic (to_lower x) x = true) by (apply forall1_ascii; vm_compute; reflexivity). apply G. Qed.
Lemma eq_ic_upper_str a : eq_ic_str (upper_str a) a = true.
Proof. induction a as [|x a IH]; cbn; [reflexivity|]. rewrite IH, andb_true_r.
  assert (G : forall x, eq_ic (to_upper x) x = true) by (apply forall1_ascii; vm_compute; reflexivity). apply G. Qed.
