(* PathsP.v — soundness of the reference checker refs_ok against the resolution model of Model/Paths.v *)
Require Import Strum.Model.Paths Strum.Proofs.BytesP.
Open Scope string_scope.

Lemma mem_s_In x l : mem_s x l = true -> exists k, In k l /\ x = s_ k.
Proof. unfold mem_s. intro H. apply existsb_exists in H as (k & Hk & E). apply str_eqb_spec in E. eauto. Qed.

(* two literal lists are disjoint as sets of strings *)
Definition disjoint_lists (l1 l2 : list string) : bool := forallb (fun k => negb (mem_s (s_ k) l2)) l1.
Lemma disjoint_sound l1 l2 x : disjoint_lists l1 l2 = true -> mem_s x l1 = true -> mem_s x l2 = false.
Proof. intros D H. apply mem_s_In in H as (k & Hk & ->). unfold disjoint_lists in D. rewrite forallb_forall in D.
  specialize (D k Hk). apply negb_true_iff in D. exact D. Qed.

Lemma prelude_not_std x : mem_s x core_prelude = true -> mem_s x std_prelude = false.
Proof. apply disjoint_sound. vm_compute. reflexivity. Qed.
Lemma prims_not_std x : mem_s x prims = true -> mem_s x std_prelude = false.
Proof. apply disjoint_sound. vm_compute. reflexivity. Qed.
Lemma core_macros_not_std x : mem_s x core_macros = true -> mem_s x std_macros = false.
Proof. apply disjoint_sound. vm_compute. reflexivity. Qed.
Lemma shadowable_core x : mem_s x shadowable = false -> str_eqb x (s_ "core") = false /\ mem_s x ["std"; "alloc"] = false.
Proof. unfold mem_s; cbn. intro H. repeat (apply orb_false_iff in H as [? H]). cbn. split; [assumption|].
  repeat (apply orb_false_iff; split); auto. Qed.

Section Sound.
Variable c : pcfg.

(* the first segment of an accepted relative path that is neither a binder nor through the strum path *)
Lemma rel_ok_first p x :
  p_abs p = false -> path_ok c p = true -> mem_pref p (c_user c) = false -> first_seg p = Some x ->
  mem_str x (c_binders c) = false -> via_strum c p = false ->
  mem_s x shadowable = false /\ (mem_s x core_prelude = true \/ mem_s x prims = true).
Proof.
  unfold path_ok, first_seg. intros Ha Hok Hu Hf Hb Hv. rewrite Hu, Ha in Hok. cbn [orb] in Hok.
  destruct (p_segs p) as [|y [|z r]] eqn:Es; [discriminate| |]; cbn in Hf; inversion Hf; subst y.
  - rewrite Hb in Hok. cbn [orb] in Hok. apply andb_true_iff in Hok as [H1 H2].
    apply negb_true_iff in H1. split; [exact H1|]. apply orb_true_iff in H2. exact H2.
  - rewrite Hv, Hb in Hok. cbn [orb] in Hok. apply andb_true_iff in Hok as [H1 H2].
    apply negb_true_iff in H1. split; [exact H1|]. apply orb_true_iff in H2. exact H2.
Qed.

Lemma abs_ok_first p :
  p_abs p = true -> path_ok c p = true -> mem_pref p (c_user c) = false ->
  exists x, first_seg p = Some x /\ (str_eqb x (s_ "core") = true \/ via_strum c p = true).
Proof.
  unfold path_ok. intros Ha Hok Hu. rewrite Hu, Ha in Hok. cbn [orb] in Hok.
  destruct (first_seg p) as [x|]; [|discriminate]. exists x. split; [reflexivity|]. apply orb_true_iff in Hok. exact Hok.
Qed.

(* (i) modules named core / std / alloc in the caller's scope do not change what an accepted,
   generator-chosen path resolves to *)
Lemma path_shadow_indep p sc1 sc2 :
  path_ok c p = true -> mem_pref p (c_user c) = false ->
  (forall x, mem_s x shadowable = false -> sc_items sc1 x = sc_items sc2 x) -> sc_no_std sc1 = sc_no_std sc2 ->
  resolve_path c sc1 p = resolve_path c sc2 p.
Proof.
  intros Hok Hu Hs Hn. unfold resolve_path. destruct (p_abs p) eqn:Ha.
  - rewrite Hn. reflexivity.
  - destruct (first_seg p) as [x|] eqn:Hf; [|reflexivity].
    destruct (mem_str x (c_binders c)) eqn:Hb; [reflexivity|].
    destruct (via_strum c p) eqn:Hv; [reflexivity|].
    destruct (rel_ok_first p x Ha Hok Hu Hf Hb Hv) as [Hsh _].
    rewrite (Hs x Hsh), Hn. reflexivity.
Qed.

(* (ii) an accepted, generator-chosen path never denotes an item of std / alloc, and resolves
   (to core, the strum path, a binder, a user item or a primitive) also in a #![no_std] crate *)
Lemma path_not_std p sc :
  path_ok c p = true -> mem_pref p (c_user c) = false ->
  resolve_path c sc p <> Some OStd /\ resolve_path c sc p <> None.
Proof.
  intros Hok Hu. unfold resolve_path. destruct (p_abs p) eqn:Ha.
  - destruct (abs_ok_first p Ha Hok Hu) as (x & Hf & [Hc|Hv]); rewrite Hf.
    + rewrite Hc. split; discriminate.
    + destruct (str_eqb x (s_ "core")); [split; discriminate|]. rewrite Hv. split; discriminate.
  - destruct (first_seg p) as [x|] eqn:Hf.
    2:{ unfold path_ok in Hok. rewrite Hu, Ha in Hok. cbn [orb] in Hok. unfold first_seg in Hf.
        destruct (p_segs p); [discriminate Hok|discriminate Hf]. }
    destruct (mem_str x (c_binders c)) eqn:Hb; [split; discriminate|].
    destruct (via_strum c p) eqn:Hv; [split; discriminate|].
    destruct (rel_ok_first p x Ha Hok Hu Hf Hb Hv) as [Hsh Hp].
    destruct (sc_items sc x); [split; discriminate|].
    destruct (shadowable_core x Hsh) as [-> ->].
    destruct Hp as [Hp|Hp].
    + rewrite Hp. split; discriminate.
    + destruct (mem_s x core_prelude); [split; discriminate|].
      rewrite (prims_not_std x Hp), Hp. split; discriminate.
Qed.

Lemma abs_resolve p sc x :
  p_abs p = true -> first_seg p = Some x -> str_eqb x (s_ "core") || via_strum c p = true ->
  resolve_path c sc p <> Some OStd /\ resolve_path c sc p <> None.
Proof.
  intros Ha Hf Hok. unfold resolve_path. rewrite Ha, Hf. apply orb_true_iff in Hok as [Hc|Hv].
  - rewrite Hc. split; discriminate.
  - destruct (str_eqb x (s_ "core")); [split; discriminate|]. rewrite Hv. split; discriminate.
Qed.

Lemma macro_shadow_indep p sc1 sc2 :
  macro_ok c p = true -> mem_pref p (c_user c) = false ->
  (forall x, mem_s x shadowable = false -> sc_items sc1 x = sc_items sc2 x) -> sc_no_std sc1 = sc_no_std sc2 ->
  resolve_macro c sc1 p = resolve_macro c sc2 p.
Proof.
  intros Hok Hu Hs Hn. unfold macro_ok in Hok. rewrite Hu in Hok. cbn [orb] in Hok.
  assert (Habs : p_abs p = true -> resolve_path c sc1 p = resolve_path c sc2 p).
  { intro Ha. unfold resolve_path. rewrite Ha, Hn. reflexivity. }
  unfold resolve_macro. destruct (p_segs p) as [|x [|y r]] eqn:Es.
  - destruct (p_abs p) eqn:Ha; [apply Habs; reflexivity|]. unfold resolve_path, first_seg. rewrite Ha, Es. reflexivity.
  - destruct (p_abs p) eqn:Ha; [apply Habs; reflexivity|]. rewrite Hn. reflexivity.
  - destruct (p_abs p) eqn:Ha; [apply Habs; reflexivity|].
    unfold resolve_path, first_seg. rewrite Ha, Es. cbn [hd_error].
    apply orb_true_iff in Hok as [Hv|Hb].
    + destruct (mem_str x (c_binders c)); [reflexivity|]. rewrite Hv. reflexivity.
    + rewrite Hb. reflexivity.
Qed.

Lemma macro_not_std p sc :
  macro_ok c p = true -> mem_pref p (c_user c) = false ->
  resolve_macro c sc p <> Some OStd /\ resolve_macro c sc p <> None.
Proof.
  intros Hok Hu. unfold macro_ok in Hok. rewrite Hu in Hok. cbn [orb] in Hok.
  assert (Habs : p_abs p = true -> resolve_path c sc p <> Some OStd /\ resolve_path c sc p <> None).
  { intro Ha. rewrite Ha in Hok. destruct (first_seg p) as [x|] eqn:Hf; [|discriminate].
    eapply abs_resolve; eauto. }
  unfold resolve_macro. destruct (p_segs p) as [|x [|y r]] eqn:Es.
  - destruct (p_abs p) eqn:Ha; [apply Habs; reflexivity|discriminate].
  - destruct (p_abs p) eqn:Ha; [apply Habs; reflexivity|]. rewrite Hok. split; discriminate.
  - destruct (p_abs p) eqn:Ha; [apply Habs; reflexivity|].
    unfold resolve_path, first_seg. rewrite Ha, Es. cbn [hd_error].
    apply orb_true_iff in Hok as [Hv|Hb].
    + destruct (mem_str x (c_binders c)); [split; discriminate|]. rewrite Hv. split; discriminate.
    + rewrite Hb. split; discriminate.
Qed.

(* `use` declarations: only through the strum path or ::core *)
Lemma use_not_std p sc :
  use_ok c p = true -> resolve_path c sc p <> Some OStd.
Proof.
  intro Hok. unfold use_ok in Hok. unfold resolve_path. destruct (p_abs p) eqn:Ha.
  - cbn [andb] in Hok. destruct (first_seg p) as [x|]; [|discriminate].
    destruct (str_eqb x (s_ "core")); [discriminate|].
    rewrite orb_false_r in Hok. rewrite Hok. discriminate.
  - cbn [andb] in Hok. rewrite orb_false_r in Hok. destruct (first_seg p) as [x|]; [|discriminate].
    destruct (mem_str x (c_binders c)); [discriminate|]. rewrite Hok. discriminate.
Qed.
Lemma use_shadow_indep p sc1 sc2 :
  use_ok c p = true -> sc_no_std sc1 = sc_no_std sc2 -> resolve_path c sc1 p = resolve_path c sc2 p.
Proof.
  intros Hok Hn. unfold use_ok in Hok. unfold resolve_path. destruct (p_abs p) eqn:Ha.
  - rewrite Hn. reflexivity.
  - cbn [andb] in Hok. rewrite orb_false_r in Hok. destruct (first_seg p) as [x|]; [|reflexivity].
    destruct (mem_str x (c_binders c)); [reflexivity|]. rewrite Hok. reflexivity.
Qed.

(* ---- the checker is sound, reference list by reference list ---- *)
Theorem refs_ok_shadow rs sc1 sc2 :
  refs_ok c rs = true ->
  (forall x, mem_s x shadowable = false -> sc_items sc1 x = sc_items sc2 x) -> sc_no_std sc1 = sc_no_std sc2 ->
  forall r, In r rs -> user_written c r = false -> resolve c sc1 r = resolve c sc2 r.
Proof.
  intros Hok Hs Hn r Hin Hu. unfold refs_ok in Hok. rewrite forallb_forall in Hok. specialize (Hok r Hin).
  destruct r as [p|p|p]; cbn in *.
  - apply path_shadow_indep; auto.
  - apply macro_shadow_indep; auto.
  - apply use_shadow_indep; auto.
Qed.

Theorem refs_ok_no_std rs sc :
  refs_ok c rs = true ->
  forall r, In r rs -> user_written c r = false -> resolve c sc r <> Some OStd.
Proof.
  intros Hok r Hin Hu. unfold refs_ok in Hok. rewrite forallb_forall in Hok. specialize (Hok r Hin).
  destruct r as [p|p|p]; cbn in *.
  - apply path_not_std; auto.
  - apply macro_not_std; auto.
  - apply use_not_std; auto.
Qed.

Theorem refs_ok_resolves rs sc :
  refs_ok c rs = true ->
  forall r, In r rs -> user_written c r = false -> match r with GUse _ => True | _ => resolve c sc r <> None end.
Proof.
  intros Hok r Hin Hu. unfold refs_ok in Hok. rewrite forallb_forall in Hok. specialize (Hok r Hin).
  destruct r as [p|p|p]; cbn in *; [apply path_not_std; auto|apply macro_not_std; auto|exact I].
Qed.

(* (iii) every accepted generator-chosen reference that names the strum crate literally goes
   through the configured path *)
Theorem refs_ok_strum_path rs :
  refs_ok c rs = true -> mem_str (s_ "strum") (c_binders c) = false ->
  forall r, In r rs -> user_written c r = false -> first_seg (ref_pref r) = Some (s_ "strum") ->
  match r with GMacro p => length (p_segs p) >= 2 | _ => True end ->
  via_strum c (ref_pref r) = true.
Proof.
  intros Hok Hnb r Hin Hu Hf Hlen. unfold refs_ok in Hok. rewrite forallb_forall in Hok. specialize (Hok r Hin).
  assert (Hnc : str_eqb (s_ "strum") (s_ "core") = false) by reflexivity.
  assert (Hnp : mem_s (s_ "strum") core_prelude || mem_s (s_ "strum") prims = false) by (vm_compute; reflexivity).
  set (st := s_ "strum") in *. clearbody st.
  destruct r as [p|p|p]; cbn [ref_pref user_written ref_ok] in *.
  - unfold path_ok in Hok. rewrite Hu in Hok. cbn [orb] in Hok. rewrite Hf in Hok. destruct (p_abs p).
    + rewrite Hnc in Hok. exact Hok.
    + unfold first_seg in Hf. destruct (p_segs p) as [|x [|y r]] eqn:Es; [discriminate| |]; cbn [hd_error] in Hf; injection Hf as ->.
      * rewrite Hnb, Hnp, andb_false_r in Hok. discriminate.
      * rewrite Hnb, Hnp, andb_false_r, !orb_false_r in Hok. exact Hok.
  - unfold macro_ok in Hok. rewrite Hu in Hok. cbn [orb] in Hok. rewrite Hf in Hok. destruct (p_abs p).
    + rewrite Hnc in Hok. exact Hok.
    + unfold first_seg in Hf. destruct (p_segs p) as [|x [|y r]] eqn:Es; [discriminate| |]; cbn [hd_error] in Hf; injection Hf as ->.
      * cbn in Hlen. exfalso. inversion Hlen as [|? H1]. inversion H1.
      * rewrite Hnb, orb_false_r in Hok. exact Hok.
  - unfold use_ok in Hok. rewrite Hf in Hok. rewrite Hnc, andb_false_r, orb_false_r in Hok. exact Hok.
Qed.
End Sound.
