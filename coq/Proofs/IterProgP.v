(* IterProgP.v — running the deep-embedded method bodies of Model/IterProg.v is exactly it_nth / it_next_back / it_len
   of Model/Iter.v (on which the C05 theorems are stated), for every width, overflow mode, count, state and argument. *)
Require Import Strum.Model.IterProg Strum.Spec.Statements.
Local Open Scope string_scope.
Local Open Scope Z_scope.

Definition item_result (r : M (ist * option Z)) : M (ist * iresult) :=
  mbind r (fun p => Ret (fst p, RItem (snd p))).

Lemma lookup_hd x v e : lookup x ((x, v) :: e) = v.
Proof. cbn [lookup]. rewrite String.eqb_refl. reflexivity. Qed.

Theorem prog_nth_correct W o cnt s n :
  exec W o cnt s [("n", n)] prog_nth = item_result (it_nth W o cnt s n).
Proof.
  unfold prog_nth, it_nth, item_result.
  cbn [exec eval eval_cond mbind]. rewrite ?lookup_hd. cbn [mbind].
  set (i := sat_add W (sat_add W (idx s) n) 1).
  destruct (sat_add W i (back s) >? cnt) eqn:E2; cbn [exec eval mbind fst snd idx back]; [reflexivity|].
  rewrite ?lookup_hd. cbn [mbind].
  destruct (sub_u W o i 1) as [k|] eqn:E3; cbn [mbind fst snd]; reflexivity.
Qed.

Theorem prog_next_back_correct W o cnt s :
  exec W o cnt s [] prog_next_back = item_result (it_next_back W o cnt s).
Proof.
  unfold prog_next_back, it_next_back, item_result.
  cbn [exec eval eval_cond mbind].
  destruct (add_u W o (back s) 1) as [b|] eqn:E1; cbn [mbind]; [|reflexivity].
  rewrite ?lookup_hd. cbn [mbind].
  destruct (add_u W o (idx s) b) as [t|] eqn:E2; cbn [mbind]; [|reflexivity].
  destruct (t >? cnt) eqn:E3; cbn [mbind exec eval idx back fst snd]; [reflexivity|].
  rewrite ?lookup_hd. cbn [mbind].
  destruct (sub_u W o cnt b) as [k|] eqn:E4; cbn [mbind fst snd]; reflexivity.
Qed.

Theorem prog_size_hint_correct W o cnt s :
  exec W o cnt s [] prog_size_hint = mbind (it_len W o cnt s) (fun n => Ret (s, RHint n)).
Proof.
  unfold prog_size_hint, it_len.
  cbn [exec eval eval_cond mbind].
  destruct (add_u W o (idx s) (back s)) as [t|] eqn:E1; cbn [mbind]; [|reflexivity].
  destruct (t >=? cnt) eqn:E2; cbn [mbind exec eval]; [reflexivity|].
  destruct (sub_u W o cnt (idx s)) as [a|] eqn:E3; cbn [mbind]; [|reflexivity].
  destruct (sub_u W o a (back s)) as [r|] eqn:E4; cbn [mbind]; reflexivity.
Qed.

Lemma C05_programs_proof : stmt_C05_programs.
Proof. intros W o cnt s n. split; [apply prog_nth_correct|split; [apply prog_next_back_correct|apply prog_size_hint_correct]]. Qed.
Print Assumptions C05_programs_proof.
Print Assumptions prog_nth_correct.
Print Assumptions prog_next_back_correct.
Print Assumptions prog_size_hint_correct.
