(* Legacy.v — models of the PINNED (pre-fix) generator fragments and machine-checked witnesses that the
   full-strength property is false of them.  Each witness was replayed on the real pinned code (see
   /verif/known_findings.json, status "fixed", and DESIGN.md §8) and is kept as a regression corpus entry.
   (F1 / C05: `stmt_C05_legacy_refuted` in Spec/Statements.v, proved in Proofs/IterP.v, about `it_nth_legacy`.) *)
Require Import Strum.Model.Repr Strum.Proofs.ReprP Strum.Model.FromStr Strum.Model.Misc Strum.Model.Paths Strum.Model.Reject.
Local Open Scope Z_scope.
Local Open Scope string_scope.

Definition lg_variant id ms := {| v_ident := s_ id; v_fields := FUnit; v_metas := ms; v_discr := None; v_dmetas := [] |}.
Definition lg_enum metas vs := {| i_kind := KEnum; i_ident := s_ "E"; i_lifetimes := 0; i_tparams := 0; i_cparams := 0;
  i_vis := VInherited; i_metas := metas; i_dmetas := []; i_repr := None; i_variants := vs |}.
Definition lg_item := {| i_kind := KEnum; i_ident := s_ "E"; i_lifetimes := 0; i_tparams := 0; i_cparams := 0;
  i_vis := VInherited; i_metas := []; i_dmetas := []; i_repr := Some RU8;
  i_variants := [ lg_variant "X" []; lg_variant "Y" [MDisabled]; lg_variant "Z" [] ] |}.

(* F2 / C06 — enum E { X, #[strum(disabled)] Y, Z }: rustc numbers Z as 2, the pinned macro matched it against 1 *)
Theorem C06_refuted : exists it c x i nf,
  gen_from_repr_legacy it = Ok c /\ NoDup (rustc_discr (i_variants it)) /\
  run_from_repr c x = Some (i, nf) /\ nth_error (rustc_discr (i_variants it)) i <> Some x.
Proof.
  exists lg_item. eexists. exists 1, 2%nat, 0%nat. split; [vm_compute; reflexivity|]. split.
  - vm_compute. repeat constructor; cbn; intuition discriminate.
  - split; vm_compute; [reflexivity|discriminate].
Qed.

(* F3 / C16 — the pinned phf branch pushed the spelling and its lower / upper forms unconditionally: for the
   case-insensitive spelling "blue" the key list has a duplicate, which phf_map! rejects *)
Theorem C16_refuted_duplicate_keys : has_dup (fs_serialization_legacy_keys true (s_ "blue")) = true.
Proof. vm_compute. reflexivity. Qed.

(* F8 / C16 — first-wins de-duplication alone: no record of the case-insensitive spellings seen so far (st_ci is
   cleared after every variant, so `shadowed` never fires across variants) *)
Definition clear_ci (st : fs_state) : fs_state :=
  {| st_default_seen := st_default_seen st; st_fall := st_fall st; st_custom_err := st_custom_err st;
     st_keys := st_keys st; st_ci := []; st_phf := st_phf st; st_arms := st_arms st |}.
Fixpoint fs_loop_legacy (tp : tprops) (st : fs_state) (idx : nat) (vs : list variant) : res fs_state :=
  match vs with
  | [] => Ok st
  | v :: r => st' <- fs_variant tp st idx v ;; fs_loop_legacy tp (clear_ci st') (S idx) r
  end.
Definition gen_from_str_legacy (it : item) : res from_str_code :=
  vs <- enum_variants it ;;
  tp <- tprops_of it ;;
  st <- fs_loop_legacy tp {| st_default_seen := false; st_fall := FNotFound; st_custom_err := false;
                             st_keys := []; st_ci := []; st_phf := []; st_arms := [] |} 0 vs ;;
  Ok {| fs_phf := st_phf st; fs_arms := st_arms st; fs_fall := st_fall st; fs_custom_err := st_custom_err st |}.
(* enum E { #[strum(ascii_case_insensitive, serialize = "Ab")] First, #[strum(serialize = "aB")] Second } *)
Definition lg_overlap (metas : list emeta) :=
  lg_enum metas [ lg_variant "First" [MAci true; MSerialize (s_ "Ab")]; lg_variant "Second" [MSerialize (s_ "aB")] ].
Theorem C16_refuted_overlap : exists plain phf_legacy phf_fixed,
  gen_from_str (lg_overlap []) = Ok plain /\ gen_from_str_legacy (lg_overlap [EUsePhf]) = Ok phf_legacy /\
  gen_from_str (lg_overlap [EUsePhf]) = Ok phf_fixed /\
  run_from_str plain (s_ "aB") = OVariant 0 PUnit /\ run_from_str phf_legacy (s_ "aB") = OVariant 1 PUnit /\
  run_from_str phf_fixed (s_ "aB") = OVariant 0 PUnit.
Proof. do 3 eexists. repeat (split; [vm_compute; reflexivity|]). vm_compute; reflexivity. Qed.

(* F4 / C19 — Display on a tuple variant with {0} placeholders expanded to format!: rejected by the checker *)
Theorem C19_refuted : refs_ok {| c_strum := {| p_abs := true; p_segs := [s_ "strum"] |}; c_binders := [s_ "E"; s_ "f"; s_ "field0"]; c_user := [] |}
                              [GMacro {| p_abs := false; p_segs := [s_ "format"] |}] = false.
Proof. vm_compute. reflexivity. Qed.

(* F5 / C20 — EnumProperty: `todo!()` for a literal that is not a string, integer or boolean *)
Fixpoint bucket_legacy (kvs : list (str * lit)) : res prop_arms :=
  match kvs with
  | [] => Ok {| pa_str := []; pa_int := []; pa_bool := [] |}
  | (k, l) :: r =>
    match l with
    | LOther => Panic
    | _ => bucket r
    end
  end.
Theorem C20_refuted_props : bucket_legacy [(s_ "a", LOther)] = Panic /\ bucket [(s_ "a", LOther)] = Err GBadProp.
Proof. split; reflexivity. Qed.

(* F6 / C20 — EnumIs: `variant.get_variant_properties().ok()?` turned an attribute error into a silently dropped variant *)
Fixpoint is_methods_legacy (idx : nat) (vs : list variant) : res (list is_method) :=
  match vs with
  | [] => Ok []
  | v :: r =>
    rest <- is_methods_legacy (S idx) r ;;
    match vprops_of v with
    | Ok p => if vp_disabled p then Ok rest
              else Ok ({| im_name := (s_ "is_" ++ snakify (v_ident v))%list; im_variant := idx |} :: rest)
    | _ => Ok rest
    end
  end.
Definition lg_dup := lg_enum [] [ lg_variant "A" [MDisabled; MDisabled]; lg_variant "B" [] ].
Theorem C20_refuted_is :
  rule_applies RDupVariantAttr DvEnumIs lg_dup = true /\
  (exists ms, is_methods_legacy 0 (i_variants lg_dup) = Ok ms /\ length ms = 1%nat) /\
  (exists e, gen_is lg_dup = Err e).
Proof. split; [vm_compute; reflexivity|]. split; [eexists; split; vm_compute; reflexivity|]. eexists. vm_compute. reflexivity. Qed.

(* F7 / C20 — default_with: `Ident::new(&value, span)` panics on anything that is not an identifier, e.g. a path *)
Definition fs_params_dw_legacy (d : str) : res params := if ident_shape d then Ok (PTuple [PWith d]) else Panic.
Theorem C20_refuted_default_with :
  fs_params_dw_legacy (s_ "a::b") = Panic /\ path_ok (s_ "a::b") = true /\ path_ok (s_ "1abc") = false.
Proof. repeat split; vm_compute; reflexivity. Qed.

Print Assumptions C06_refuted.
Print Assumptions C16_refuted_duplicate_keys.
Print Assumptions C16_refuted_overlap.
Print Assumptions C19_refuted.
Print Assumptions C20_refuted_props.
Print Assumptions C20_refuted_is.
Print Assumptions C20_refuted_default_with.
