(* Legacy.v — models of the PINNED (pre-fix) generator fragments and machine-checked witnesses that
   the full-strength property is false of them.  Each witness was replayed on the real pinned code
   (see /verif/known_findings.json, status "fixed") and is kept as a regression corpus entry. *)
Require Import Strum.Model.Repr Strum.Proofs.ReprP.
Open Scope Z_scope.

Definition lg_variant id ms := {| v_ident := s_ id; v_fields := FUnit; v_metas := ms; v_discr := None; v_dmetas := [] |}.
Definition lg_item := {| i_kind := KEnum; i_ident := s_ "E"; i_lifetimes := 0; i_tparams := 0; i_cparams := 0;
  i_vis := VInherited; i_metas := []; i_dmetas := []; i_repr := Some RU8;
  i_variants := [ lg_variant "X" []; lg_variant "Y" [MDisabled]; lg_variant "Z" [] ] |}.

(* enum E { X, #[strum(disabled)] Y, Z }: rustc numbers Z as 2, the pinned macro matched it against 1 *)
Theorem C06_refuted : exists it c x i nf,
  gen_from_repr_legacy it = Ok c /\ NoDup (rustc_discr (i_variants it)) /\
  run_from_repr c x = Some (i, nf) /\ nth_error (rustc_discr (i_variants it)) i <> Some x.
Proof.
  exists lg_item. eexists. exists 1, 2%nat, 0%nat. split; [vm_compute; reflexivity|]. split.
  - vm_compute. repeat constructor; cbn; intuition discriminate.
  - split; vm_compute; [reflexivity|discriminate].
Qed.
Print Assumptions C06_refuted.
