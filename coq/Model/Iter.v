(* Iter.v — macros/enum_iter.rs (EnumIter), enum_count.rs (EnumCount), enum_variant_array.rs
   (VariantArray).  The iterator state machine works on machine integers: Z with an explicit
   width W (2^64 for usize on this target) and an explicit overflow mode. *)
Require Export Strum.Model.Names.
Local Open Scope Z_scope.

(* ---------------- the dense constructor table (enum_iter.rs:36-65) ---------------- *)
Record ctor := { ct_variant : nat; ct_nfields : nat }.     (* E::V(Default::default(), ..) *)

Fixpoint iter_ctors (idx : nat) (vs : list variant) : res (list ctor) :=
  match vs with
  | [] => Ok []
  | v :: r =>
    p <- vprops_of v ;;
    rest <- iter_ctors (S idx) r ;;
    if vp_disabled p then Ok rest
    else Ok ({| ct_variant := idx; ct_nfields := nfields_of (v_fields v) |} :: rest)
  end.

Record iter_code := { ic_table : list ctor }.              (* get(k) = nth_error table k *)

(* enum_iter_inner: type properties, lifetimes, non-enum, then the variants *)
Definition gen_iter (it : item) : res iter_code :=
  tp <- tprops_of it ;;
  if (0 <? i_lifetimes it)%nat then Err GLifetime else
  vs <- enum_variants it ;;
  t <- iter_ctors 0 vs ;;
  Ok {| ic_table := t |}.

Definition iter_get (c : iter_code) (k : Z) : option ctor :=
  if k <? 0 then None else nth_error (ic_table c) (Z.to_nat k).
Definition iter_count (c : iter_code) : Z := Z.of_nat (length (ic_table c)).

(* ---------------- machine arithmetic ---------------- *)
Inductive ovf := Debug | Release.
Inductive M (A : Type) := Ret (a : A) | PanicM.
Arguments Ret {A} a. Arguments PanicM {A}.
Definition mbind {A B} (m : M A) (f : A -> M B) : M B := match m with Ret a => f a | PanicM => PanicM end.

Section Machine.
Variable W : Z.          (* usize::MAX + 1 *)
Variable o : ovf.

(* a + b on usize: panics in debug builds, wraps in release builds *)
Definition add_u (a b : Z) : M Z :=
  if a + b <? W then Ret (a + b) else match o with Debug => PanicM | Release => Ret ((a + b) mod W) end.
(* a - b on usize *)
Definition sub_u (a b : Z) : M Z :=
  if 0 <=? a - b then Ret (a - b) else match o with Debug => PanicM | Release => Ret ((a - b) mod W) end.
Definition sat_add (a b : Z) : Z := if a + b <? W then a + b else W - 1.

Record ist := { idx : Z; back : Z }.
Definition ist0 : ist := {| idx := 0; back := 0 |}.

Variable cnt : Z.        (* #variant_count *)

(* Iterator::nth (enum_iter.rs:128-141, repaired: saturating sums).  Returns the index passed
   to `get`, if any. *)
Definition it_nth (s : ist) (n : Z) : M (ist * option Z) :=
  let i := sat_add (sat_add (idx s) n) 1 in
  if sat_add i (back s) >? cnt then Ret ({| idx := cnt; back := back s |}, None)
  else mbind (sub_u i 1) (fun k => Ret ({| idx := i; back := back s |}, Some k)).

(* the pinned code: `let idx = self.idx + n + 1; if idx + self.back_idx > COUNT` *)
Definition it_nth_legacy (s : ist) (n : Z) : M (ist * option Z) :=
  mbind (add_u (idx s) n) (fun t =>
  mbind (add_u t 1) (fun i =>
  mbind (add_u i (back s)) (fun c =>
  if c >? cnt then Ret ({| idx := cnt; back := back s |}, None)
  else mbind (sub_u i 1) (fun k => Ret ({| idx := i; back := back s |}, Some k))))).

Definition it_next (s : ist) : M (ist * option Z) := it_nth s 0.

(* DoubleEndedIterator::next_back (enum_iter.rs:151-166) *)
Definition it_next_back (s : ist) : M (ist * option Z) :=
  mbind (add_u (back s) 1) (fun b =>
  mbind (add_u (idx s) b) (fun t =>
  if t >? cnt then Ret ({| idx := idx s; back := cnt |}, None)
  else mbind (sub_u cnt b) (fun k => Ret ({| idx := idx s; back := b |}, Some k)))).

(* size_hint / len (enum_iter.rs:122-126, 144-149) *)
Definition it_len (s : ist) : M Z :=
  mbind (add_u (idx s) (back s)) (fun t =>
  if t >=? cnt then Ret 0
  else mbind (sub_u cnt (idx s)) (fun a => sub_u a (back s))).

(* std's default DoubleEndedIterator::nth_back: advance_back_by(n) (n calls of next_back, stopping
   at the first None) and then next_back.  Recursion on a nat bounded by the caller. *)
Fixpoint advance_back (fuel : nat) (s : ist) : M (ist * bool) :=
  match fuel with
  | O => Ret (s, true)
  | S f =>
    mbind (it_next_back s) (fun r =>
      match snd r with
      | None => Ret (fst r, false)
      | Some _ => advance_back f (fst r)
      end)
  end.
(* n calls are cut off at cnt+1: after cnt+1 calls the iterator has certainly answered None *)
Definition it_nth_back (s : ist) (n : Z) : M (ist * option Z) :=
  let fuel := Z.to_nat (Z.min n (cnt + 1)) in
  mbind (advance_back fuel s) (fun r =>
    if snd r then it_next_back (fst r) else Ret (fst r, None)).

Inductive iop := OpNext | OpNextBack | OpNth (n : Z) | OpNthBack (n : Z) | OpLen | OpSizeHint.
Inductive iobs := ObsItem (k : option Z) | ObsLen (n : Z) | ObsHint (lo hi : Z) | ObsPanic.

Definition it_step (s : ist) (op : iop) : ist * iobs :=
  let item (r : M (ist * option Z)) :=
    match r with Ret (s', k) => (s', ObsItem k) | PanicM => (s, ObsPanic) end in
  match op with
  | OpNext => item (it_next s)
  | OpNextBack => item (it_next_back s)
  | OpNth n => item (it_nth s n)
  | OpNthBack n => item (it_nth_back s n)
  | OpLen => match it_len s with Ret n => (s, ObsLen n) | PanicM => (s, ObsPanic) end
  | OpSizeHint => match it_len s with Ret n => (s, ObsHint n n) | PanicM => (s, ObsPanic) end
  end.
Definition it_step_legacy (s : ist) (op : iop) : ist * iobs :=
  match op with
  | OpNth n => match it_nth_legacy s n with Ret (s', k) => (s', ObsItem k) | PanicM => (s, ObsPanic) end
  | OpNext => match it_nth_legacy s 0 with Ret (s', k) => (s', ObsItem k) | PanicM => (s, ObsPanic) end
  | _ => it_step s op
  end.

(* a history over a family of iterators: slot 0 is E::iter(); `HClone j` pushes a clone of slot j *)
Inductive hop := HOp (slot : nat) (op : iop) | HClone (slot : nat).

Fixpoint set_nth {A} (l : list A) (n : nat) (x : A) : list A :=
  match l, n with
  | [], _ => []
  | _ :: r, O => x :: r
  | a :: r, S k => a :: set_nth r k x
  end.

Definition hist_step (step : ist -> iop -> ist * iobs) (sts : list ist) (h : hop) : list ist * option iobs :=
  match h with
  | HOp j op =>
      match nth_error sts j with
      | Some s => let '(s', ob) := step s op in (set_nth sts j s', Some ob)
      | None => (sts, None)
      end
  | HClone j =>
      match nth_error sts j with
      | Some s => (sts ++ [s], None)
      | None => (sts, None)
      end
  end.

Fixpoint run_hist (step : ist -> iop -> ist * iobs) (sts : list ist) (hs : list hop) : list (option iobs) :=
  match hs with
  | [] => []
  | h :: r => let '(sts', ob) := hist_step step sts h in ob :: run_hist step sts' r
  end.
End Machine.

(* ---------------- EnumCount (enum_count.rs:9-18) ---------------- *)
Fixpoint count_enabled (vs : list variant) (acc : nat) : res nat :=
  match vs with
  | [] => Ok acc
  | v :: r => p <- vprops_of v ;; count_enabled r (if vp_disabled p then acc else S acc)
  end.
Definition gen_count (it : item) : res nat :=
  vs <- enum_variants it ;;
  n <- count_enabled vs 0%nat ;;
  tp <- tprops_of it ;;
  Ok n.

(* ---------------- VariantArray (enum_variant_array.rs:7-34): every declared variant, unit only ---------------- *)
Fixpoint array_idents (idx : nat) (vs : list variant) : res (list nat) :=
  match vs with
  | [] => Ok []
  | v :: r => if is_unit (v_fields v) then rest <- array_idents (S idx) r ;; Ok (idx :: rest) else Err GNonUnit
  end.
Definition gen_variant_array (it : item) : res (list nat) :=
  vs <- enum_variants it ;;
  tp <- tprops_of it ;;
  array_idents 0 vs.
