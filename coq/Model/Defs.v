(* Defs.v — the abstract syntax the derives see: an item (enum/struct/union)
   with its #[strum(..)] / #[strum_discriminants(..)] / #[repr] / doc attributes,
   in SOURCE ORDER.  This is what syn hands to strum_macros after parsing. *)
Require Export Strum.Model.Bytes.

(* value of a props(key = value) entry (syn::Lit) *)
Inductive lit := LStr (s : str) | LInt (z : Z) | LBool (b : bool) | LOther.

(* one item of a variant's #[strum(..)] lists, or one doc attribute (metadata.rs:187-283) *)
Inductive vmeta :=
  | MSerialize (s : str)
  | MToString (s : str)
  | MMessage (s : str)
  | MDetailed (s : str)
  | MDoc (s : str)
  | MTransparent
  | MDisabled
  | MDefault
  | MDefaultWith (f : str)
  | MAci (b : bool)
  | MProps (kv : list (str * lit)).

(* one item of the enum's #[strum(..)] lists (metadata.rs:45-116) *)
Inductive emeta :=
  | ESerializeAll (style : str)
  | EAci
  | ECrate (p : str)
  | EUsePhf
  | EPrefix (s : str)
  | EParseErrTy (p : str)
  | EParseErrFn (p : str)
  | EConstIntoStr.

Inductive vis := VInherited | VPub | VPubCrate | VPubSuper.

(* one item of the enum's #[strum_discriminants(..)] lists (metadata.rs:118-165) *)
Inductive dmeta :=
  | DDerive (paths : list str)
  | DName (n : str)
  | DVis (v : vis)
  | DDoc (s : str)
  | DStrum (ms : list emeta)   (* strum(..): passed through as #[strum(..)] on the generated enum *)
  | DOther (tokens : str).

Record field := {
  f_name : str;            (* "" for a tuple field *)
  f_ty : str;              (* the type, opaque to the model *)
  f_is_ref : bool;         (* syn::Type::Reference (strings/mod.rs:26,36) *)
  f_dw : list str          (* field-level #[strum(default_with = "..")] occurrences *)
}.

Inductive fields := FUnit | FTuple (fs : list field) | FNamed (fs : list field).

Record variant := {
  v_ident : str;
  v_fields : fields;
  v_metas : list vmeta;        (* strum items and doc attributes, source order *)
  v_discr : option Z;          (* value of the explicit `= expr`, if any *)
  v_dmetas : list vmeta        (* #[strum_discriminants(strum(..))] pass-through *)
}.

Inductive item_kind := KEnum | KStruct | KUnion.

Inductive repr := RU8 | RU16 | RU32 | RU64 | RUsize | RI8 | RI16 | RI32 | RI64 | RIsize | ROther.

Record item := {
  i_kind : item_kind;
  i_ident : str;
  i_lifetimes : nat;
  i_tparams : nat;
  i_cparams : nat;
  i_vis : vis;
  i_metas : list emeta;
  i_dmetas : list dmeta;
  i_repr : option repr;
  i_variants : list variant
}.

(* Outcome of running a generator (a syn::Error is classified, not worded). *)
Inductive gerr :=
  | GNonEnum                (* "This macro only supports enums." *)
  | GOccurrence (attr : str)(* "Found multiple occurrences of strum(attr)" *)
  | GLifetime               (* "... doesn't support enums with lifetimes" *)
  | GNonUnit                (* data-carrying variant for VariantArray / EnumTable *)
  | GNonSingleField         (* transparent on a variant without exactly one field *)
  | GDefaultField           (* "Default only works on newtype structs with a single String field" *)
  | GUnknownStyle           (* "Unexpected case style for serialize_all" *)
  | GMissingParseErr        (* only one of parse_err_ty / parse_err_fn *)
  | GBadProp                (* unsupported property literal *)
  | GUnitInterp             (* "Unit variants do not support interpolation" *)
  | GEmptyBrace             (* "Empty {} is not allowed" *)
  | GBracket                (* bracket opened/closed without its partner *)
  | GBadIdent               (* "Invalid identifier inside format string bracket" *)
  | GEmptyTable             (* "EnumTable requires at least one non-disabled variant" *)
  | GBadPath.               (* default_with literal that is not a path *)

Inductive res (A : Type) := Ok (a : A) | Err (e : gerr) | Panic.
Arguments Ok {A} a.
Arguments Err {A} e.
Arguments Panic {A}.

Definition bind {A B} (m : res A) (f : A -> res B) : res B :=
  match m with Ok a => f a | Err e => Err e | Panic => Panic end.
Notation "x <- m ;; f" := (bind m (fun x => f)) (at level 61, m at next level, right associativity).

Fixpoint mapM {A B} (f : A -> res B) (l : list A) : res (list B) :=
  match l with
  | [] => Ok []
  | a :: r => b <- f a ;; bs <- mapM f r ;; Ok (b :: bs)
  end.

Definition field_list (fs : fields) : list field :=
  match fs with FUnit => [] | FTuple l => l | FNamed l => l end.
Definition is_unit (fs : fields) : bool := match fs with FUnit => true | _ => false end.
