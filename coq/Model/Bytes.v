(* Bytes.v — Rust &str as its UTF-8 byte sequence, and the byte-level operations
   strum relies on: ==, eq_ignore_ascii_case, to_ascii_lowercase/uppercase, len.
   Executable definitions only (no proofs): this file is extracted. *)
From Coq Require Export Ascii String.
From Coq Require Export List Bool Arith NArith ZArith.
Export ListNotations.

Definition str := list ascii.
Definition s_ (x : string) : str := list_ascii_of_string x.
Definition show (s : str) : string := string_of_list_ascii s.

Definition byte (c : ascii) : N := N_of_ascii c.

Definition is_upper (c : ascii) : bool := let n := byte c in (65 <=? n)%N && (n <=? 90)%N.
Definition is_lower (c : ascii) : bool := let n := byte c in (97 <=? n)%N && (n <=? 122)%N.
Definition is_digit (c : ascii) : bool := let n := byte c in (48 <=? n)%N && (n <=? 57)%N.
Definition is_alpha (c : ascii) : bool := is_upper c || is_lower c.
Definition is_alnum (c : ascii) : bool := is_upper c || is_lower c || is_digit c.
Definition is_ascii (c : ascii) : bool := (byte c <? 128)%N.

(* u8::to_ascii_lowercase / to_ascii_uppercase *)
Definition to_lower (c : ascii) : ascii := if is_upper c then ascii_of_N (byte c + 32) else c.
Definition to_upper (c : ascii) : ascii := if is_lower c then ascii_of_N (byte c - 32) else c.
Definition lower_str : str -> str := map to_lower.
Definition upper_str : str -> str := map to_upper.

(* u8::eq_ignore_ascii_case *)
Definition eq_ic (a b : ascii) : bool := Ascii.eqb (to_lower a) (to_lower b).

Fixpoint str_eqb (a b : str) : bool :=
  match a, b with
  | [], [] => true
  | x :: a', y :: b' => Ascii.eqb x y && str_eqb a' b'
  | _, _ => false
  end.

(* str::eq_ignore_ascii_case: same length and bytewise eq_ignore_ascii_case *)
Fixpoint eq_ic_str (a b : str) : bool :=
  match a, b with
  | [], [] => true
  | x :: a', y :: b' => eq_ic x y && eq_ic_str a' b'
  | _, _ => false
  end.

(* number of chars of a UTF-8 string = number of bytes that are not continuation bytes (10xxxxxx) *)
Definition is_cont (c : ascii) : bool := let n := byte c in (128 <=? n)%N && (n <? 192)%N.
Definition char_count (s : str) : nat := length (filter (fun c => negb (is_cont c)) s).

Fixpoint starts_with (p s : str) : bool :=
  match p, s with
  | [], _ => true
  | x :: p', y :: s' => Ascii.eqb x y && starts_with p' s'
  | _ :: _, [] => false
  end.

Fixpoint mem_str (x : str) (l : list str) : bool :=
  match l with [] => false | y :: r => str_eqb x y || mem_str x r end.

Fixpoint assoc_key {A} (k : str) (l : list (str * A)) : option A :=
  match l with [] => None | (k', x) :: r => if str_eqb k k' then Some x else assoc_key k r end.

