(* HeckU.v — the same code as Heck.v (heck 0.5.0's `transform`, its word functions, strum's convert_case and snakify),
   but over Unicode scalar values instead of ASCII bytes, PARAMETRIC in the character database: the five `char` methods
   the Rust code calls (is_lowercase, is_uppercase, is_alphanumeric, to_lowercase, to_uppercase) are the fields of a
   record `ucd`; nothing else about Unicode is used.  The correspondence check instantiates the record with a finite
   table printed by Rust's own `char` methods for the characters in play (harness/genprobe `chartab`), so non-ASCII
   identifiers are evaluated by this model; Proofs/HeckUP.v shows that the ASCII instance is exactly Heck.v.
   Domain: identifiers without U+03A3 (capital sigma), for which heck's `lowercase` and `str::to_lowercase` apply
   context-dependent final-sigma rules that are not modelled (`sigma_free`).  Executable, no proofs. *)
Require Export Strum.Model.Heck.
Local Open Scope N_scope.

Definition ustr := list N.                      (* a string as its sequence of scalar values *)

Record ucd := {
  u_lower : N -> bool;                          (* char::is_lowercase *)
  u_upper : N -> bool;                          (* char::is_uppercase *)
  u_alnum : N -> bool;                          (* char::is_alphanumeric *)
  u_lo : N -> ustr;                             (* char::to_lowercase (one to three scalar values) *)
  u_up : N -> ustr                              (* char::to_uppercase *)
}.

Definition sigma_free (s : ustr) : bool := forallb (fun c => negb (c =? 931)) s.

Section U.
Variable U : ucd.

(* lib.rs:108-152, the `while let` loop on one alphanumeric segment *)
Fixpoint useg_words (w : ustr) (m : mode) (cur : ustr) : list ustr :=
  match w with
  | [] => []
  | c :: rest =>
    match rest with
    | [] => [rev (c :: cur)]
    | next :: _ =>
      let next_mode := if u_lower U c then MLower else if u_upper U c then MUpper else m in
      if mode_eqb next_mode MLower && u_upper U next then
        rev (c :: cur) :: useg_words rest MBoundary []
      else if mode_eqb m MUpper && u_upper U c && u_lower U next then
        rev cur :: useg_words rest MBoundary [c]
      else useg_words rest next_mode (c :: cur)
    end
  end.

(* s.split(|c: char| !c.is_alphanumeric()) *)
Fixpoint usplit_alnum (s : ustr) (cur : ustr) : list ustr :=
  match s with
  | [] => [rev cur]
  | c :: r => if u_alnum U c then usplit_alnum r (c :: cur) else rev cur :: usplit_alnum r []
  end.

Definition uheck_words (s : ustr) : list ustr :=
  flat_map (fun seg => useg_words seg MBoundary []) (usplit_alnum s []).

(* lib.rs:161-193 (sigma-free words) and str::to_lowercase / to_uppercase (sigma-free strings) *)
Definition ulowercase (w : ustr) : ustr := flat_map (u_lo U) w.
Definition uuppercase (w : ustr) : ustr := flat_map (u_up U) w.
Definition ucapitalize (w : ustr) : ustr :=
  match w with [] => [] | c :: r => u_up U c ++ ulowercase r end.

Fixpoint ujoin (sep : ustr) (ws : list ustr) : ustr :=
  match ws with [] => [] | [w] => w | w :: r => w ++ sep ++ ujoin sep r end.

Definition uto_snake s := ujoin [95] (map ulowercase (uheck_words s)).
Definition uto_kebab s := ujoin [45] (map ulowercase (uheck_words s)).
Definition uto_shouty_snake s := ujoin [95] (map uuppercase (uheck_words s)).
Definition uto_title s := ujoin [32] (map ucapitalize (uheck_words s)).
Definition uto_train s := ujoin [45] (map ucapitalize (uheck_words s)).
Definition uto_upper_camel s := ujoin [] (map ucapitalize (uheck_words s)).
Definition uto_lower_camel s :=
  ujoin [] (match uheck_words s with [] => [] | w :: r => ulowercase w :: map ucapitalize r end).

(* case_style.rs:88-117 *)
Definition uconvert_case (st : option case_style) (id : ustr) : ustr :=
  match st with
  | None => id
  | Some PascalCase => uto_upper_camel id
  | Some KebabCase => uto_kebab id
  | Some MixedCase => uto_lower_camel id
  | Some ShoutySnakeCase => uto_shouty_snake id
  | Some SnakeCase => uto_snake id
  | Some TitleCase => uto_title id
  | Some UpperCase => uuppercase id
  | Some LowerCase => ulowercase id
  | Some ScreamingKebabCase => uuppercase (uto_kebab id)
  | Some TrainCase => uto_train id
  | Some CamelCase =>
      match uto_upper_camel id with [] => [] | c :: r => u_lo U c ++ r end
  end.

(* case_style.rs:165-178; char::is_digit(10) accepts the ASCII digits only *)
Definition u_digit (c : N) : bool := (48 <=? c) && (c <=? 57).
Fixpoint usnakify_go (prev : option N) (s : ustr) : ustr :=
  match s with
  | [] => []
  | c :: r =>
    (if u_digit c && match prev with Some p => negb (u_digit p) | None => false end
     then [95; c] else [c]) ++ usnakify_go (Some c) r
  end.
Definition usnakify (id : ustr) : ustr := usnakify_go None (uto_snake id).
End U.

(* ---- the ASCII instance: Bytes.v's classification of the 256 byte values, every other scalar value caseless ---- *)
Definition a_of (n : N) : ascii := ascii_of_N n.
Definition ascii_ucd : ucd := {|
  u_lower := fun n => (n <? 256) && is_lower (a_of n);
  u_upper := fun n => (n <? 256) && is_upper (a_of n);
  u_alnum := fun n => (n <? 256) && is_alnum (a_of n);
  u_lo := fun n => [if n <? 256 then byte (to_lower (a_of n)) else n];
  u_up := fun n => [if n <? 256 then byte (to_upper (a_of n)) else n]
|}.

(* ---- a database given as a finite table (what the correspondence check feeds in) ---- *)
Record uentry := { e_cp : N; e_lower : bool; e_upper : bool; e_alnum : bool; e_lo : ustr; e_up : ustr }.
Fixpoint ulookup (t : list uentry) (c : N) : option uentry :=
  match t with [] => None | e :: r => if e_cp e =? c then Some e else ulookup r c end.
(* a scalar value the table does not mention is treated as a caseless non-alphanumeric one; `table_closed` says no such
   value is ever looked up for the identifier at hand *)
Definition ucd_of_table (t : list uentry) : ucd := {|
  u_lower := fun c => match ulookup t c with Some e => e_lower e | None => false end;
  u_upper := fun c => match ulookup t c with Some e => e_upper e | None => false end;
  u_alnum := fun c => match ulookup t c with Some e => e_alnum e | None => false end;
  u_lo := fun c => match ulookup t c with Some e => e_lo e | None => [c] end;
  u_up := fun c => match ulookup t c with Some e => e_up e | None => [c] end
|}.
Definition in_table (t : list uentry) (c : N) : bool := match ulookup t c with Some _ => true | None => false end.
(* every scalar value of the identifier, of the separators, and of the images of table entries is itself in the table *)
Definition table_closed (t : list uentry) (id : ustr) : bool :=
  forallb (in_table t) (id ++ [95; 45; 32]) &&
  forallb (fun e => forallb (in_table t) (e_lo e) && forallb (in_table t) (e_up e)) t.
(* the only fact about Unicode the theorems need: no scalar value is both Lowercase and Uppercase *)
Definition table_disjoint (t : list uentry) : bool := forallb (fun e => negb (e_lower e && e_upper e)) t.
