(* Display.v — macros/strings/display.rs (Display), as_ref_str.rs (AsRefStr, IntoStaticStr,
   AsStaticStr), to_string.rs (deprecated ToString), and core::fmt::Formatter::pad.  *)
Require Export Strum.Model.Names.
Require Import Strum.Model.FromStr.   (* ident_ok *)
Local Open Scope char_scope.

(* ---------------- core::fmt::Formatter::pad (library/core/src/fmt/mod.rs) ---------------- *)
Inductive align := ALeft | ARight | ACenter.
Record fspec := {
  sp_fill : str;                 (* the UTF-8 bytes of the fill char; [" "] by default *)
  sp_align : option align;
  sp_width : option nat;
  sp_prec : option nat
}.
Definition nospec : fspec := {| sp_fill := [" "]; sp_align := None; sp_width := None; sp_prec := None |}.

(* the first n chars of a UTF-8 byte string: cut before the (n+1)-th non-continuation byte *)
Fixpoint take_chars (n : nat) (s : str) : str :=
  match s with
  | [] => []
  | c :: r =>
    if is_cont c then c :: take_chars n r
    else match n with O => [] | S n' => c :: take_chars n' r end
  end.

Fixpoint repeat_str (n : nat) (f : str) : str := match n with O => [] | S k => f ++ repeat_str k f end.

Definition fmt_pad (sp : fspec) (s : str) : str :=
  let s1 := match sp_prec sp with Some p => take_chars p s | None => s end in
  match sp_width sp with
  | None => s1
  | Some w =>
    let n := char_count s1 in
    if (w <=? n)%nat then s1 else
    let padn := (w - n)%nat in
    let '(pre, post) := match sp_align sp with
                        | None | Some ALeft => (O, padn)
                        | Some ARight => (padn, O)
                        | Some ACenter => (Nat.div padn 2, Nat.div (padn + 1) 2)
                        end in
    repeat_str pre (sp_fill sp) ++ s1 ++ repeat_str post (sp_fill sp)
  end.

(* ---------------- capture_format_strings (display.rs:187-219) ---------------- *)
Definition ob : ascii := "{".
Definition cb : ascii := "}".

(* str::replace(xx, "") for a doubled character: leftmost, non-overlapping *)
Fixpoint rm2 (x : ascii) (s : str) : str :=
  match s with
  | a :: t => match t with
              | b :: r => if Ascii.eqb a x && Ascii.eqb b x then rm2 x r else a :: rm2 x t
              | [] => s
              end
  | [] => []
  end.

(* inside.split(":").next().unwrap().trim_end()  — ASCII white space only (model limit) *)
Definition is_ws (c : ascii) : bool :=
  let n := byte c in (n =? 32)%N || ((9 <=? n)%N && (n <=? 13)%N).
Fixpoint before_colon (s : str) : str :=
  match s with [] => [] | c :: r => if Ascii.eqb c ":" then [] else c :: before_colon r end.
Fixpoint drop_ws (s : str) : str := match s with c :: r => if is_ws c then drop_ws r else s | [] => [] end.
Definition trim_end (s : str) : str := rev (drop_ws (rev s)).
Definition name_of (inner : str) : str := trim_end (before_colon inner).

Inductive cap_err := CapOpenTwice | CapCloseNoOpen.
Fixpoint cap_scan (s : str) (open : option str) (acc : list str) : list str + cap_err :=
  match s with
  | [] => inl (rev acc)                                  (* an unclosed `{` at the end is not reported *)
  | c :: r =>
    if Ascii.eqb c ob then match open with Some _ => inr CapOpenTwice | None => cap_scan r (Some []) acc end
    else if Ascii.eqb c cb then
      match open with None => inr CapCloseNoOpen | Some cur => cap_scan r None (name_of (rev cur) :: acc) end
    else match open with Some cur => cap_scan r (Some (c :: cur)) acc | None => cap_scan r None acc end
  end.
Definition capture (lit : str) : res (list str) :=
  match cap_scan (rm2 cb (rm2 ob lit)) None [] with
  | inl l => Ok l
  | inr _ => Err GBracket
  end.
(* capture_format_string_idents: every captured name must parse as an identifier *)
Definition capture_idents (lit : str) : res (list str) :=
  l <- capture lit ;;
  if forallb ident_ok l then Ok l else Err GBadIdent.

(* ---------------- the Display impl ---------------- *)
Inductive dbody :=
  | DStr (lit : str)                       (* <str as Display>::fmt("lit", f) *)
  | DInner (s : single)                    (* Display::fmt(field, f) *)
  | DArgsNamed (lit : str) (bound : list str)   (* Display::fmt(&format_args!("lit", a = a, ..), f) *)
  | DArgsPos (lit : str) (n : nat).        (* Display::fmt(&format_args!("lit", field0, .., field{n-1}), f) *)

Record match_code (B : Type) := {
  mc_arms : list (nat * B);                (* variant index -> body, in emission order *)
  mc_wild_panic : bool                     (* `_ => panic!(..)` appended *)
}.
Arguments mc_arms {B}. Arguments mc_wild_panic {B}.

Definition display_arm (tp : tprops) (v : variant) (p : vprops) : res dbody :=
  if vp_transparent p then
    match single_field (v_fields v) with Some s => Ok (DInner s) | None => Err GNonSingleField end
  else
    let output := preferred_name (tp_style tp) (tp_prefix tp) p in
    if negb (is_some (vp_to_string p)) && vp_default p then
      match single_field (v_fields v) with Some s => Ok (DInner s) | None => Err GDefaultField end
    else
      match v_fields v with
      | FNamed fs =>
          used <- capture_idents output ;;
          match used with
          | [] => Ok (DStr output)
          | _ => Ok (DArgsNamed output (filter (fun n => mem_str n used) (map f_name fs)))
          end
      | FTuple fs =>
          used <- capture output ;;
          if existsb (fun u => match u with [] => true | _ => false end) used then Err GEmptyBrace else
          match used with
          | [] => Ok (DStr output)
          | _ => Ok (DArgsPos output (length fs))
          end
      | FUnit =>
          used <- capture output ;;
          match used with [] => Ok (DStr output) | _ => Err GUnitInterp end
      end.

Fixpoint display_arms (tp : tprops) (idx : nat) (vs : list variant) : res (list (nat * dbody)) :=
  match vs with
  | [] => Ok []
  | v :: r =>
    p <- vprops_of v ;;
    if vp_disabled p then display_arms tp (S idx) r else
    b <- display_arm tp v p ;;
    rest <- display_arms tp (S idx) r ;;
    Ok ((idx, b) :: rest)
  end.

Definition gen_display (it : item) : res (match_code dbody) :=
  vs <- enum_variants it ;;
  tp <- tprops_of it ;;
  arms <- display_arms tp 0 vs ;;
  Ok {| mc_arms := arms; mc_wild_panic := (length arms <? length vs)%nat |}.

(* `match *self { arms }`: the first arm for the value's variant, else the wildcard (a match
   without an applicable arm cannot be emitted: rustc checks exhaustiveness) *)
Inductive mres (B : Type) := MArm (b : B) | MPanic | MNoArm.
Arguments MArm {B} b. Arguments MPanic {B}. Arguments MNoArm {B}.
Definition run_match {B} (c : match_code B) (vi : nat) : mres B :=
  match find (fun a => Nat.eqb (fst a) vi) (mc_arms c) with
  | Some a => MArm (snd a)
  | None => if mc_wild_panic c then MPanic else MNoArm
  end.

(* what Display prints for a value of variant vi under format spec sp, as far as the model
   carries it: a padded fixed string, or a forward to the inner field / to format_args! *)
Inductive dout := OutStr (s : str) | OutInner (s : single) | OutArgsNamed (lit : str) (bound : list str)
                | OutArgsPos (lit : str) (n : nat) | OutPanic | OutNoArm.
Definition run_display (c : match_code dbody) (vi : nat) (sp : fspec) : dout :=
  match run_match c vi with
  | MArm (DStr lit) => OutStr (fmt_pad sp lit)
  | MArm (DInner s) => OutInner s
  | MArm (DArgsNamed lit b) => OutArgsNamed lit b
  | MArm (DArgsPos lit n) => OutArgsPos lit n
  | MPanic => OutPanic
  | MNoArm => OutNoArm
  end.

(* ---------------- AsRefStr / IntoStaticStr / AsStaticStr: as_ref_str.rs:9-67 ---------------- *)
Inductive abody := AStr (lit : str) | AInner (s : single).

Fixpoint asref_arms (tp : tprops) (idx : nat) (vs : list variant) : res (list (nat * abody)) :=
  match vs with
  | [] => Ok []
  | v :: r =>
    p <- vprops_of v ;;
    if vp_disabled p then asref_arms tp (S idx) r else
    b <- (if vp_transparent p then
            match single_field (v_fields v) with Some s => Ok (AInner s) | None => Err GNonSingleField end
          else Ok (AStr (preferred_name (tp_style tp) (tp_prefix tp) p))) ;;
    rest <- asref_arms tp (S idx) r ;;
    Ok ((idx, b) :: rest)
  end.

(* get_arms evaluates the variants first, then the type properties (as_ref_str.rs:14-22) — the
   order only matters for which error is reported; the model keeps the code's order *)
Definition gen_as_ref (it : item) : res (match_code abody) :=
  vs <- enum_variants it ;;
  tp <- tprops_of it ;;
  arms <- asref_arms tp 0 vs ;;
  Ok {| mc_arms := arms; mc_wild_panic := (length arms <? length vs)%nat |}.

(* IntoStaticStr: the same arm list is used by From<E>, From<&E> and (const_into_str) into_str;
   with const_into_str, From<&E> calls into_str (as_ref_str.rs:112-160) *)
Record into_static_code := {
  is_arms : match_code abody;
  is_const : bool
}.
Definition gen_into_static (it : item) : res into_static_code :=
  arms <- gen_as_ref it ;;
  tp <- tprops_of it ;;
  Ok {| is_arms := arms; is_const := tp_const_into_str tp |}.

Inductive aout := AOutStr (s : str) | AOutInner (s : single) | AOutPanic | AOutNoArm.
Definition run_as_ref (c : match_code abody) (vi : nat) : aout :=
  match run_match c vi with
  | MArm (AStr l) => AOutStr l
  | MArm (AInner s) => AOutInner s
  | MPanic => AOutPanic
  | MNoArm => AOutNoArm
  end.

(* ---------------- deprecated ToString: to_string.rs:7-68 ---------------- *)
Inductive tbody := TStr (lit : str) | TInnerString.      (* String::from("lit") | String::from(s) *)
Fixpoint tostring_arms (tp : tprops) (idx : nat) (vs : list variant) : res (list (nat * tbody)) :=
  match vs with
  | [] => Ok []
  | v :: r =>
    p <- vprops_of v ;;
    if vp_disabled p then tostring_arms tp (S idx) r else
    b <- (if negb (is_some (vp_to_string p)) && vp_default p then
            match v_fields v with FTuple [_] => Ok TInnerString | _ => Err GDefaultField end
          else Ok (TStr (preferred_name (tp_style tp) (tp_prefix tp) p))) ;;
    rest <- tostring_arms tp (S idx) r ;;
    Ok ((idx, b) :: rest)
  end.
Definition gen_to_string (it : item) : res (match_code tbody) :=
  vs <- enum_variants it ;;
  tp <- tprops_of it ;;
  arms <- tostring_arms tp 0 vs ;;
  Ok {| mc_arms := arms; mc_wild_panic := (length arms <? length vs)%nat |}.

(* ---------------- VariantNames: enum_variant_names.rs:7-35 (no variant is skipped) ---------------- *)
Definition gen_variant_names (it : item) : res (list str) :=
  vs <- enum_variants it ;;
  tp <- tprops_of it ;;
  mapM (fun v => p <- vprops_of v ;; Ok (preferred_name (tp_style tp) (tp_prefix tp) p)) vs.
