(* Meta.v — helpers/variant_props.rs, helpers/type_props.rs,
   helpers/inner_variant_props.rs: folding the attribute items into property
   records, with the duplicate-keyword ("occurrence") errors. *)
Require Export Strum.Model.Defs Strum.Model.Heck.

Record vprops := {
  vp_transparent : bool;
  vp_disabled : bool;
  vp_default : bool;
  vp_default_with : option str;
  vp_aci : option bool;
  vp_message : option str;
  vp_detailed : option str;
  vp_docs : list str;
  vp_props : list (str * lit);
  vp_serialize : list str;
  vp_to_string : option str;
  vp_ident : str
}.

Definition vp_init (id : str) : vprops :=
  {| vp_transparent := false; vp_disabled := false; vp_default := false;
     vp_default_with := None; vp_aci := None; vp_message := None; vp_detailed := None;
     vp_docs := []; vp_props := []; vp_serialize := []; vp_to_string := None; vp_ident := id |}.

(* metadata.rs:296-319: strum items of all #[strum] attributes first, then the doc attributes *)
Definition is_doc (m : vmeta) : bool := match m with MDoc _ => true | _ => false end.
Definition get_metadata (ms : list vmeta) : list vmeta :=
  filter (fun m => negb (is_doc m)) ms ++ filter is_doc ms.

Definition is_some {A} (o : option A) : bool := match o with Some _ => true | None => false end.

(* variant_props.rs:83-159; the *_kw locals coincide with "field already set"
   (for the three keyword-only items the field itself is the keyword) *)
Definition vp_step (p : vprops) (m : vmeta) : res vprops :=
  match m with
  | MMessage s =>
      if is_some (vp_message p) then Err (GOccurrence (s_ "message")) else
      Ok {| vp_transparent := vp_transparent p; vp_disabled := vp_disabled p; vp_default := vp_default p;
            vp_default_with := vp_default_with p; vp_aci := vp_aci p; vp_message := Some s;
            vp_detailed := vp_detailed p; vp_docs := vp_docs p; vp_props := vp_props p;
            vp_serialize := vp_serialize p; vp_to_string := vp_to_string p; vp_ident := vp_ident p |}
  | MDetailed s =>
      if is_some (vp_detailed p) then Err (GOccurrence (s_ "detailed_message")) else
      Ok {| vp_transparent := vp_transparent p; vp_disabled := vp_disabled p; vp_default := vp_default p;
            vp_default_with := vp_default_with p; vp_aci := vp_aci p; vp_message := vp_message p;
            vp_detailed := Some s; vp_docs := vp_docs p; vp_props := vp_props p;
            vp_serialize := vp_serialize p; vp_to_string := vp_to_string p; vp_ident := vp_ident p |}
  | MDoc s =>
      Ok {| vp_transparent := vp_transparent p; vp_disabled := vp_disabled p; vp_default := vp_default p;
            vp_default_with := vp_default_with p; vp_aci := vp_aci p; vp_message := vp_message p;
            vp_detailed := vp_detailed p; vp_docs := vp_docs p ++ [s]; vp_props := vp_props p;
            vp_serialize := vp_serialize p; vp_to_string := vp_to_string p; vp_ident := vp_ident p |}
  | MSerialize s =>
      Ok {| vp_transparent := vp_transparent p; vp_disabled := vp_disabled p; vp_default := vp_default p;
            vp_default_with := vp_default_with p; vp_aci := vp_aci p; vp_message := vp_message p;
            vp_detailed := vp_detailed p; vp_docs := vp_docs p; vp_props := vp_props p;
            vp_serialize := vp_serialize p ++ [s]; vp_to_string := vp_to_string p; vp_ident := vp_ident p |}
  | MToString s =>
      if is_some (vp_to_string p) then Err (GOccurrence (s_ "to_string")) else
      Ok {| vp_transparent := vp_transparent p; vp_disabled := vp_disabled p; vp_default := vp_default p;
            vp_default_with := vp_default_with p; vp_aci := vp_aci p; vp_message := vp_message p;
            vp_detailed := vp_detailed p; vp_docs := vp_docs p; vp_props := vp_props p;
            vp_serialize := vp_serialize p; vp_to_string := Some s; vp_ident := vp_ident p |}
  | MTransparent =>
      if vp_transparent p then Err (GOccurrence (s_ "transparent")) else
      Ok {| vp_transparent := true; vp_disabled := vp_disabled p; vp_default := vp_default p;
            vp_default_with := vp_default_with p; vp_aci := vp_aci p; vp_message := vp_message p;
            vp_detailed := vp_detailed p; vp_docs := vp_docs p; vp_props := vp_props p;
            vp_serialize := vp_serialize p; vp_to_string := vp_to_string p; vp_ident := vp_ident p |}
  | MDisabled =>
      if vp_disabled p then Err (GOccurrence (s_ "disabled")) else
      Ok {| vp_transparent := vp_transparent p; vp_disabled := true; vp_default := vp_default p;
            vp_default_with := vp_default_with p; vp_aci := vp_aci p; vp_message := vp_message p;
            vp_detailed := vp_detailed p; vp_docs := vp_docs p; vp_props := vp_props p;
            vp_serialize := vp_serialize p; vp_to_string := vp_to_string p; vp_ident := vp_ident p |}
  | MDefault =>
      if vp_default p then Err (GOccurrence (s_ "default")) else
      Ok {| vp_transparent := vp_transparent p; vp_disabled := vp_disabled p; vp_default := true;
            vp_default_with := vp_default_with p; vp_aci := vp_aci p; vp_message := vp_message p;
            vp_detailed := vp_detailed p; vp_docs := vp_docs p; vp_props := vp_props p;
            vp_serialize := vp_serialize p; vp_to_string := vp_to_string p; vp_ident := vp_ident p |}
  | MDefaultWith f =>
      if is_some (vp_default_with p) then Err (GOccurrence (s_ "default_with")) else
      Ok {| vp_transparent := vp_transparent p; vp_disabled := vp_disabled p; vp_default := vp_default p;
            vp_default_with := Some f; vp_aci := vp_aci p; vp_message := vp_message p;
            vp_detailed := vp_detailed p; vp_docs := vp_docs p; vp_props := vp_props p;
            vp_serialize := vp_serialize p; vp_to_string := vp_to_string p; vp_ident := vp_ident p |}
  | MAci b =>
      if is_some (vp_aci p) then Err (GOccurrence (s_ "ascii_case_insensitive")) else
      Ok {| vp_transparent := vp_transparent p; vp_disabled := vp_disabled p; vp_default := vp_default p;
            vp_default_with := vp_default_with p; vp_aci := Some b; vp_message := vp_message p;
            vp_detailed := vp_detailed p; vp_docs := vp_docs p; vp_props := vp_props p;
            vp_serialize := vp_serialize p; vp_to_string := vp_to_string p; vp_ident := vp_ident p |}
  | MProps kv =>
      Ok {| vp_transparent := vp_transparent p; vp_disabled := vp_disabled p; vp_default := vp_default p;
            vp_default_with := vp_default_with p; vp_aci := vp_aci p; vp_message := vp_message p;
            vp_detailed := vp_detailed p; vp_docs := vp_docs p; vp_props := vp_props p ++ kv;
            vp_serialize := vp_serialize p; vp_to_string := vp_to_string p; vp_ident := vp_ident p |}
  end.

Fixpoint foldM {A B} (f : A -> B -> res A) (a : A) (l : list B) : res A :=
  match l with [] => Ok a | b :: r => a' <- f a b ;; foldM f a' r end.

Definition vprops_of_metas (id : str) (ms : list vmeta) : res vprops :=
  foldM vp_step (vp_init id) (get_metadata ms).

Definition vprops_of (v : variant) : res vprops := vprops_of_metas (v_ident v) (v_metas v).

(* inner_variant_props.rs:15-32 *)
Definition fprops_of (f : field) : res (option str) :=
  match f_dw f with
  | [] => Ok None
  | [d] => Ok (Some d)
  | _ :: _ :: _ => Err (GOccurrence (s_ "default_with"))
  end.

Record tprops := {
  tp_err_ty : option str;
  tp_err_fn : option str;
  tp_style : option case_style;
  tp_aci : bool;
  tp_crate : option str;
  tp_phf : bool;
  tp_prefix : option str;
  tp_const_into_str : bool;
  tp_dderives : list str;
  tp_dname : option str;
  tp_dvis : option vis;
  tp_ddocs : list str;
  tp_dothers : list str;
  tp_repr : option repr
}.

Definition tp_init (r : option repr) : tprops :=
  {| tp_err_ty := None; tp_err_fn := None; tp_style := None; tp_aci := false; tp_crate := None;
     tp_phf := false; tp_prefix := None; tp_const_into_str := false; tp_dderives := [];
     tp_dname := None; tp_dvis := None; tp_ddocs := []; tp_dothers := []; tp_repr := r |}.

(* parsing of the enum-level items happens before the fold (type_props.rs:36):
   the only parse error the model knows is an unknown serialize_all style *)
Definition emeta_parse_ok (m : emeta) : bool :=
  match m with ESerializeAll s => is_some (style_of_string s) | _ => true end.

Definition tp_step (p : tprops) (m : emeta) : res tprops :=
  match m with
  | ESerializeAll s =>
      if is_some (tp_style p) then Err (GOccurrence (s_ "serialize_all")) else
      match style_of_string s with
      | None => Err GUnknownStyle
      | Some st =>
      Ok {| tp_err_ty := tp_err_ty p; tp_err_fn := tp_err_fn p; tp_style := Some st; tp_aci := tp_aci p;
            tp_crate := tp_crate p; tp_phf := tp_phf p; tp_prefix := tp_prefix p;
            tp_const_into_str := tp_const_into_str p; tp_dderives := tp_dderives p; tp_dname := tp_dname p;
            tp_dvis := tp_dvis p; tp_ddocs := tp_ddocs p; tp_dothers := tp_dothers p; tp_repr := tp_repr p |}
      end
  | EAci =>
      if tp_aci p then Err (GOccurrence (s_ "ascii_case_insensitive")) else
      Ok {| tp_err_ty := tp_err_ty p; tp_err_fn := tp_err_fn p; tp_style := tp_style p; tp_aci := true;
            tp_crate := tp_crate p; tp_phf := tp_phf p; tp_prefix := tp_prefix p;
            tp_const_into_str := tp_const_into_str p; tp_dderives := tp_dderives p; tp_dname := tp_dname p;
            tp_dvis := tp_dvis p; tp_ddocs := tp_ddocs p; tp_dothers := tp_dothers p; tp_repr := tp_repr p |}
  | ECrate c =>
      if is_some (tp_crate p) then Err (GOccurrence (s_ "Crate")) else
      Ok {| tp_err_ty := tp_err_ty p; tp_err_fn := tp_err_fn p; tp_style := tp_style p; tp_aci := tp_aci p;
            tp_crate := Some c; tp_phf := tp_phf p; tp_prefix := tp_prefix p;
            tp_const_into_str := tp_const_into_str p; tp_dderives := tp_dderives p; tp_dname := tp_dname p;
            tp_dvis := tp_dvis p; tp_ddocs := tp_ddocs p; tp_dothers := tp_dothers p; tp_repr := tp_repr p |}
  | EUsePhf =>
      if tp_phf p then Err (GOccurrence (s_ "use_phf")) else
      Ok {| tp_err_ty := tp_err_ty p; tp_err_fn := tp_err_fn p; tp_style := tp_style p; tp_aci := tp_aci p;
            tp_crate := tp_crate p; tp_phf := true; tp_prefix := tp_prefix p;
            tp_const_into_str := tp_const_into_str p; tp_dderives := tp_dderives p; tp_dname := tp_dname p;
            tp_dvis := tp_dvis p; tp_ddocs := tp_ddocs p; tp_dothers := tp_dothers p; tp_repr := tp_repr p |}
  | EPrefix s =>
      if is_some (tp_prefix p) then Err (GOccurrence (s_ "prefix")) else
      Ok {| tp_err_ty := tp_err_ty p; tp_err_fn := tp_err_fn p; tp_style := tp_style p; tp_aci := tp_aci p;
            tp_crate := tp_crate p; tp_phf := tp_phf p; tp_prefix := Some s;
            tp_const_into_str := tp_const_into_str p; tp_dderives := tp_dderives p; tp_dname := tp_dname p;
            tp_dvis := tp_dvis p; tp_ddocs := tp_ddocs p; tp_dothers := tp_dothers p; tp_repr := tp_repr p |}
  | EParseErrTy t =>
      if is_some (tp_err_ty p) then Err (GOccurrence (s_ "parse_err_ty")) else
      Ok {| tp_err_ty := Some t; tp_err_fn := tp_err_fn p; tp_style := tp_style p; tp_aci := tp_aci p;
            tp_crate := tp_crate p; tp_phf := tp_phf p; tp_prefix := tp_prefix p;
            tp_const_into_str := tp_const_into_str p; tp_dderives := tp_dderives p; tp_dname := tp_dname p;
            tp_dvis := tp_dvis p; tp_ddocs := tp_ddocs p; tp_dothers := tp_dothers p; tp_repr := tp_repr p |}
  | EParseErrFn f =>
      if is_some (tp_err_fn p) then Err (GOccurrence (s_ "parse_err_fn")) else
      Ok {| tp_err_ty := tp_err_ty p; tp_err_fn := Some f; tp_style := tp_style p; tp_aci := tp_aci p;
            tp_crate := tp_crate p; tp_phf := tp_phf p; tp_prefix := tp_prefix p;
            tp_const_into_str := tp_const_into_str p; tp_dderives := tp_dderives p; tp_dname := tp_dname p;
            tp_dvis := tp_dvis p; tp_ddocs := tp_ddocs p; tp_dothers := tp_dothers p; tp_repr := tp_repr p |}
  | EConstIntoStr =>
      if tp_const_into_str p then Err (GOccurrence (s_ "const_into_str")) else
      Ok {| tp_err_ty := tp_err_ty p; tp_err_fn := tp_err_fn p; tp_style := tp_style p; tp_aci := tp_aci p;
            tp_crate := tp_crate p; tp_phf := tp_phf p; tp_prefix := tp_prefix p;
            tp_const_into_str := true; tp_dderives := tp_dderives p; tp_dname := tp_dname p;
            tp_dvis := tp_dvis p; tp_ddocs := tp_ddocs p; tp_dothers := tp_dothers p; tp_repr := tp_repr p |}
  end.

Definition td_step (p : tprops) (m : dmeta) : res tprops :=
  match m with
  | DDerive ps =>
      Ok {| tp_err_ty := tp_err_ty p; tp_err_fn := tp_err_fn p; tp_style := tp_style p; tp_aci := tp_aci p;
            tp_crate := tp_crate p; tp_phf := tp_phf p; tp_prefix := tp_prefix p;
            tp_const_into_str := tp_const_into_str p; tp_dderives := tp_dderives p ++ ps; tp_dname := tp_dname p;
            tp_dvis := tp_dvis p; tp_ddocs := tp_ddocs p; tp_dothers := tp_dothers p; tp_repr := tp_repr p |}
  | DName n =>
      if is_some (tp_dname p) then Err (GOccurrence (s_ "name")) else
      Ok {| tp_err_ty := tp_err_ty p; tp_err_fn := tp_err_fn p; tp_style := tp_style p; tp_aci := tp_aci p;
            tp_crate := tp_crate p; tp_phf := tp_phf p; tp_prefix := tp_prefix p;
            tp_const_into_str := tp_const_into_str p; tp_dderives := tp_dderives p; tp_dname := Some n;
            tp_dvis := tp_dvis p; tp_ddocs := tp_ddocs p; tp_dothers := tp_dothers p; tp_repr := tp_repr p |}
  | DVis v =>
      if is_some (tp_dvis p) then Err (GOccurrence (s_ "vis")) else
      Ok {| tp_err_ty := tp_err_ty p; tp_err_fn := tp_err_fn p; tp_style := tp_style p; tp_aci := tp_aci p;
            tp_crate := tp_crate p; tp_phf := tp_phf p; tp_prefix := tp_prefix p;
            tp_const_into_str := tp_const_into_str p; tp_dderives := tp_dderives p; tp_dname := tp_dname p;
            tp_dvis := Some v; tp_ddocs := tp_ddocs p; tp_dothers := tp_dothers p; tp_repr := tp_repr p |}
  | DDoc s =>
      Ok {| tp_err_ty := tp_err_ty p; tp_err_fn := tp_err_fn p; tp_style := tp_style p; tp_aci := tp_aci p;
            tp_crate := tp_crate p; tp_phf := tp_phf p; tp_prefix := tp_prefix p;
            tp_const_into_str := tp_const_into_str p; tp_dderives := tp_dderives p; tp_dname := tp_dname p;
            tp_dvis := tp_dvis p; tp_ddocs := tp_ddocs p ++ [s]; tp_dothers := tp_dothers p; tp_repr := tp_repr p |}
  | DStrum _ =>
      Ok {| tp_err_ty := tp_err_ty p; tp_err_fn := tp_err_fn p; tp_style := tp_style p; tp_aci := tp_aci p;
            tp_crate := tp_crate p; tp_phf := tp_phf p; tp_prefix := tp_prefix p;
            tp_const_into_str := tp_const_into_str p; tp_dderives := tp_dderives p; tp_dname := tp_dname p;
            tp_dvis := tp_dvis p; tp_ddocs := tp_ddocs p; tp_dothers := tp_dothers p ++ [s_ "strum"]; tp_repr := tp_repr p |}
  | DOther t =>
      Ok {| tp_err_ty := tp_err_ty p; tp_err_fn := tp_err_fn p; tp_style := tp_style p; tp_aci := tp_aci p;
            tp_crate := tp_crate p; tp_phf := tp_phf p; tp_prefix := tp_prefix p;
            tp_const_into_str := tp_const_into_str p; tp_dderives := tp_dderives p; tp_dname := tp_dname p;
            tp_dvis := tp_dvis p; tp_ddocs := tp_ddocs p; tp_dothers := tp_dothers p ++ [t]; tp_repr := tp_repr p |}
  end.

(* type_props.rs:32-165 *)
Definition tprops_of (it : item) : res tprops :=
  if negb (forallb emeta_parse_ok (i_metas it)) then Err GUnknownStyle else
  p <- foldM tp_step (tp_init (i_repr it)) (i_metas it) ;;
  foldM td_step p (i_dmetas it).

(* "let variants = match &ast.data { Data::Enum(v) => .., _ => return Err(non_enum_error()) }" *)
Definition enum_variants (it : item) : res (list variant) :=
  match i_kind it with KEnum => Ok (i_variants it) | _ => Err GNonEnum end.
