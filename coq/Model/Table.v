(* Table.v — macros/enum_table.rs (EnumTable): a struct with one field per enabled variant. *)
Require Export Strum.Model.Names.

Record table_code := {
  tb_slots : list (nat * str);        (* enabled variants in declaration order: (variant index, field name) *)
  tb_disabled : list nat              (* variants whose Index arm is `panic!` *)
}.

Record tb_state := { ts_slots : list (nat * str); ts_disabled : list nat }.

(* enum_table.rs:47-80 *)
Fixpoint table_loop (idx : nat) (vs : list variant) : res tb_state :=
  match vs with
  | [] => Ok {| ts_slots := []; ts_disabled := [] |}
  | v :: r =>
    p <- vprops_of v ;;
    if vp_disabled p then
      rest <- table_loop (S idx) r ;;
      Ok {| ts_slots := ts_slots rest; ts_disabled := idx :: ts_disabled rest |}
    else if negb (is_unit (v_fields v)) then Err GNonUnit
    else
      rest <- table_loop (S idx) r ;;
      Ok {| ts_slots := (idx, "_"%char :: snakify (v_ident v)) :: ts_slots rest; ts_disabled := ts_disabled rest |}
  end.

(* enum_table_inner: lifetimes, non-enum, variants, emptiness (no type properties are read) *)
Definition gen_table (it : item) : res table_code :=
  if (0 <? i_lifetimes it)%nat then Err GLifetime else
  vs <- enum_variants it ;;
  st <- table_loop 0 vs ;;
  match ts_slots st with
  | [] => Err GEmptyTable
  | _ => Ok {| tb_slots := ts_slots st; tb_disabled := ts_disabled st |}
  end.

(* position of variant vi among the slots *)
Fixpoint slot_pos (slots : list (nat * str)) (vi : nat) : option nat :=
  match slots with
  | [] => None
  | (k, _) :: r => if Nat.eqb k vi then Some O else option_map S (slot_pos r vi)
  end.

Section Table.
Variable T : Type.
Variable c : table_code.

Definition table := list T.            (* the values of the struct fields, in field order *)

Inductive tres (A : Type) := TOk (a : A) | TPanic | TNoArm.
Arguments TOk {A} a. Arguments TPanic {A}. Arguments TNoArm {A}.

(* Index<E>::index *)
Definition tb_index (t : table) (vi : nat) : tres T :=
  match slot_pos (tb_slots c) vi with
  | Some k => match nth_error t k with Some x => TOk x | None => TNoArm end
  | None => if existsb (Nat.eqb vi) (tb_disabled c) then TPanic else TNoArm
  end.

Fixpoint set_at (t : list T) (k : nat) (x : T) : list T :=
  match t, k with
  | [], _ => []
  | _ :: r, O => x :: r
  | a :: r, S k' => a :: set_at r k' x
  end.

(* `table[vi] = x` through IndexMut *)
Definition tb_set (t : table) (vi : nat) (x : T) : tres table :=
  match slot_pos (tb_slots c) vi with
  | Some k => TOk (set_at t k x)
  | None => if existsb (Nat.eqb vi) (tb_disabled c) then TPanic else TNoArm
  end.

(* new(a, b, ..): parameters and fields in the same (declaration) order *)
Definition tb_new (args : list T) : table := args.
Definition tb_filled (x : T) : table := map (fun _ => x) (tb_slots c).
Definition tb_from_closure (f : nat -> T) : table := map (fun s => f (fst s)) (tb_slots c).
End Table.
Arguments TOk {A} a. Arguments TPanic {A}. Arguments TNoArm {A}.

Section Table2.
Variables T U : Type.
Variable c : table_code.
Fixpoint zip_slots (slots : list (nat * str)) (t : list T) : list (nat * T) :=
  match slots, t with
  | (k, _) :: r, x :: t' => (k, x) :: zip_slots r t'
  | _, _ => []
  end.
(* transform(f): f(variant, &old[variant]) per field *)
Definition tb_transform (f : nat -> T -> U) (t : list T) : list U :=
  map (fun kx => f (fst kx) (snd kx)) (zip_slots (tb_slots c) t).
End Table2.

(* all(): Some(table of payloads) iff every slot is Some *)
Fixpoint tb_all {T} (t : list (option T)) : option (list T) :=
  match t with
  | [] => Some []
  | Some x :: r => option_map (cons x) (tb_all r)
  | None :: _ => None
  end.

(* all_ok(): field-by-field `?` in declaration order: the first Err wins *)
Fixpoint tb_all_ok {T E} (t : list (T + E)) : list T + E :=
  match t with
  | [] => inl []
  | inl x :: r => match tb_all_ok r with inl l => inl (x :: l) | inr e => inr e end
  | inr e :: _ => inr e
  end.
