(* Repr.v — macros/from_repr.rs (FromRepr) and rustc's discriminant rule. *)
Require Export Strum.Model.Meta.
Local Open Scope Z_scope.

(* range of the discriminant type on a 64-bit target *)
Definition repr_range (r : repr) : Z * Z :=
  match r with
  | RU8 => (0, 2^8 - 1) | RU16 => (0, 2^16 - 1) | RU32 => (0, 2^32 - 1)
  | RU64 => (0, 2^64 - 1) | RUsize => (0, 2^64 - 1)
  | RI8 => (- 2^7, 2^7 - 1) | RI16 => (- 2^15, 2^15 - 1) | RI32 => (- 2^31, 2^31 - 1)
  | RI64 => (- 2^63, 2^63 - 1) | RIsize => (- 2^63, 2^63 - 1)
  | ROther => (0, 2^64 - 1)
  end.
Definition in_range (r : repr) (z : Z) : bool := (fst (repr_range r) <=? z) && (z <=? snd (repr_range r)).

(* from_repr.rs:13-32: the #[repr] type when it is one of the ten integer types, else usize *)
Definition discr_ty (o : option repr) : repr :=
  match o with
  | Some ROther | None => RUsize
  | Some r => r
  end.

(* The language rule: explicit value, else previous + 1, first 0 — over ALL declared variants. *)
Fixpoint rustc_discr_from (prev : option Z) (vs : list variant) : list Z :=
  match vs with
  | [] => []
  | v :: r =>
    let d := match v_discr v with
             | Some z => z
             | None => match prev with Some p => p + 1 | None => 0 end
             end in
    d :: rustc_discr_from (Some d) r
  end.
Definition rustc_discr (vs : list variant) : list Z := rustc_discr_from None vs.

(* from_repr.rs:51-97 (repaired code): one `const V_DISCRIMINANT: T = expr | PREV + 1 | 0` per
   DECLARED variant; an arm `v if v == V_DISCRIMINANT => Some(V(defaults))` per ENABLED variant.
   A constant whose value does not fit T is a compile (const-eval) error. *)
Record repr_arm := { ra_variant : nat; ra_const : Z; ra_nfields : nat }.

Fixpoint repr_arms (ty : repr) (idx : nat) (prev : option Z) (vs : list variant) : res (list repr_arm) :=
  match vs with
  | [] => Ok []
  | v :: r =>
    p <- vprops_of v ;;
    let c := match v_discr v with
             | Some z => z
             | None => match prev with Some q => q + 1 | None => 0 end
             end in
    if negb (in_range ty c) then Err GBadPath (* const-eval overflow: rustc rejects; class unused *) else
    rest <- repr_arms ty (S idx) (Some c) r ;;
    if vp_disabled p then Ok rest
    else Ok ({| ra_variant := idx; ra_const := c; ra_nfields := length (field_list (v_fields v)) |} :: rest)
  end.

Record from_repr_code := {
  fr_ty : repr;
  fr_arms : list repr_arm;
  fr_const : bool          (* emitted as `const fn` *)
}.

(* from_repr.rs:8-125 *)
Definition gen_from_repr (it : item) : res from_repr_code :=
  (* .get_type_properties().ok(): errors of the enum-level attributes are discarded here *)
  let ty := discr_ty (i_repr it) in
  if (0 <? i_lifetimes it)%nat then Err GLifetime else
  vs <- enum_variants it ;;
  arms <- repr_arms ty 0 None vs ;;
  Ok {| fr_ty := ty; fr_arms := arms; fr_const := forallb (fun a => (ra_nfields a =? 0)%nat) arms |}.

(* the generated fn: first arm whose constant equals the argument *)
Definition run_from_repr (c : from_repr_code) (x : Z) : option (nat * nat) :=
  match find (fun a => ra_const a =? x) (fr_arms c) with
  | Some a => Some (ra_variant a, ra_nfields a)
  | None => None
  end.

(* ------------------------------------------------------------------ *)
(* The pinned (pre-fix) generator, kept for Legacy.v: a disabled variant is skipped BEFORE its
   constant is defined, so `prev` is the last ENABLED variant. *)
Fixpoint repr_arms_legacy (ty : repr) (idx : nat) (prev : option Z) (vs : list variant) : res (list repr_arm) :=
  match vs with
  | [] => Ok []
  | v :: r =>
    p <- vprops_of v ;;
    if vp_disabled p then repr_arms_legacy ty (S idx) prev r else
    let c := match v_discr v with
             | Some z => z
             | None => match prev with Some q => q + 1 | None => 0 end
             end in
    if negb (in_range ty c) then Err GBadPath else
    rest <- repr_arms_legacy ty (S idx) (Some c) r ;;
    Ok ({| ra_variant := idx; ra_const := c; ra_nfields := length (field_list (v_fields v)) |} :: rest)
  end.
Definition gen_from_repr_legacy (it : item) : res from_repr_code :=
  let ty := discr_ty (i_repr it) in
  if (0 <? i_lifetimes it)%nat then Err GLifetime else
  vs <- enum_variants it ;;
  arms <- repr_arms_legacy ty 0 None vs ;;
  Ok {| fr_ty := ty; fr_arms := arms; fr_const := forallb (fun a => (ra_nfields a =? 0)%nat) arms |}.
