(* Reject.v — the outcome class of every derive entry point (strum_macros/src/lib.rs:121-970):
   Ok (an implementation is emitted), Err e (compile_error! tokens), or Panic. *)
Require Export Strum.Model.FromStr Strum.Model.Display Strum.Model.Iter Strum.Model.Table
               Strum.Model.Misc Strum.Model.Repr.

Inductive derive :=
  | DvEnumString | DvDisplay | DvAsRefStr | DvIntoStaticStr | DvVariantNames | DvVariantArray
  | DvEnumIter | DvEnumCount | DvFromRepr | DvEnumTable | DvEnumIs | DvEnumTryAs
  | DvEnumMessage | DvEnumProperty | DvEnumDiscriminants
  | DvToString | DvAsStaticStr.            (* deprecated *)

Definition all_derives : list derive :=
  [DvEnumString; DvDisplay; DvAsRefStr; DvIntoStaticStr; DvVariantNames; DvVariantArray; DvEnumIter;
   DvEnumCount; DvFromRepr; DvEnumTable; DvEnumIs; DvEnumTryAs; DvEnumMessage; DvEnumProperty;
   DvEnumDiscriminants; DvToString; DvAsStaticStr].

Definition forget {A} (r : res A) : res unit :=
  match r with Ok _ => Ok tt | Err e => Err e | Panic => Panic end.

Definition outcome (dv : derive) (it : item) : res unit :=
  match dv with
  | DvEnumString => forget (gen_from_str it)
  | DvDisplay => forget (gen_display it)
  | DvAsRefStr => forget (gen_as_ref it)
  | DvIntoStaticStr | DvAsStaticStr => forget (gen_into_static it)
  | DvVariantNames => forget (gen_variant_names it)
  | DvVariantArray => forget (gen_variant_array it)
  | DvEnumIter => forget (gen_iter it)
  | DvEnumCount => forget (gen_count it)
  | DvFromRepr => forget (gen_from_repr it)
  | DvEnumTable => forget (gen_table it)
  | DvEnumIs => forget (gen_is it)
  | DvEnumTryAs => forget (gen_try_as it)
  | DvEnumMessage => forget (gen_message it)
  | DvEnumProperty => forget (gen_props it)
  | DvEnumDiscriminants => forget (gen_discriminants it)
  | DvToString => forget (gen_to_string it)
  end.

(* ---- the rejection rules of the property (C20), as decidable predicates on (derive, item) ---- *)
Definition is_enum (it : item) : bool := match i_kind it with KEnum => true | _ => false end.

Definition reads_tprops (dv : derive) : bool :=
  match dv with DvEnumTable | DvEnumIs | DvEnumTryAs | DvFromRepr => false | _ => true end.
Definition reads_vprops (dv : derive) : bool :=
  match dv with DvVariantArray | DvEnumDiscriminants => false | _ => true end.

Definition count_occ {A} (f : A -> bool) (l : list A) : nat := length (filter f l).

(* a single-use variant keyword written twice *)
Definition vmeta_dup (ms : list vmeta) : bool :=
  let two f := (2 <=? count_occ f ms)%nat in
  two (fun m => match m with MMessage _ => true | _ => false end) ||
  two (fun m => match m with MDetailed _ => true | _ => false end) ||
  two (fun m => match m with MToString _ => true | _ => false end) ||
  two (fun m => match m with MTransparent => true | _ => false end) ||
  two (fun m => match m with MDisabled => true | _ => false end) ||
  two (fun m => match m with MDefault => true | _ => false end) ||
  two (fun m => match m with MDefaultWith _ => true | _ => false end) ||
  two (fun m => match m with MAci _ => true | _ => false end).

Definition emeta_dup (ms : list emeta) : bool :=
  let two f := (2 <=? count_occ f ms)%nat in
  two (fun m => match m with ESerializeAll _ => true | _ => false end) ||
  two (fun m => match m with EAci => true | _ => false end) ||
  two (fun m => match m with ECrate _ => true | _ => false end) ||
  two (fun m => match m with EUsePhf => true | _ => false end) ||
  two (fun m => match m with EPrefix _ => true | _ => false end) ||
  two (fun m => match m with EParseErrTy _ => true | _ => false end) ||
  two (fun m => match m with EParseErrFn _ => true | _ => false end) ||
  two (fun m => match m with EConstIntoStr => true | _ => false end).

Inductive rule :=
  | RNonEnum            (* a struct or union: every derive *)
  | RNonUnit            (* a data-carrying variant: VariantArray; an ENABLED one: EnumTable *)
  | RLifetime           (* a lifetime parameter: EnumIter, FromRepr, EnumTable *)
  | RDupVariantAttr     (* a repeated single-use variant attribute: every derive that reads variant attributes *)
  | RDupEnumAttr        (* a repeated single-use enum attribute: every derive that reads enum attributes *)
  | RTwoDefaults        (* two enabled default variants: EnumString *)
  | RDefaultArity       (* default on an enabled variant without exactly one field: EnumString, Display *)
  | RTransparentArity   (* transparent on an enabled variant without exactly one field: Display, AsRefStr, IntoStaticStr *)
  | RUnitPlaceholder    (* a {placeholder} in the name of an enabled unit variant: Display *)
  | RUnknownStyle       (* unknown serialize_all style: every derive that reads enum attributes *)
  | ROneParseErr        (* only one of parse_err_ty / parse_err_fn: EnumString *)
  | RBadPropLiteral.    (* a property literal that is not a string, integer or boolean: EnumProperty *)

Definition enabled_ok (v : variant) : bool :=
  match vprops_of v with Ok p => negb (vp_disabled p) | _ => false end.
Definition vhas (f : vprops -> bool) (v : variant) : bool :=
  match vprops_of v with Ok p => f p | _ => false end.

Definition rule_applies (r : rule) (dv : derive) (it : item) : bool :=
  match r with
  | RNonEnum => negb (is_enum it)
  | RNonUnit =>
      is_enum it &&
      match dv with
      | DvVariantArray => existsb (fun v => negb (is_unit (v_fields v))) (i_variants it)
      | DvEnumTable => existsb (fun v => enabled_ok v && negb (is_unit (v_fields v))) (i_variants it)
      | _ => false
      end
  | RLifetime =>
      (0 <? i_lifetimes it)%nat &&
      match dv with DvEnumIter | DvFromRepr | DvEnumTable => true | _ => false end
  | RDupVariantAttr =>
      is_enum it && reads_vprops dv && existsb (fun v => vmeta_dup (v_metas v)) (i_variants it)
  | RDupEnumAttr => is_enum it && reads_tprops dv && emeta_dup (i_metas it)
  | RTwoDefaults =>
      is_enum it &&
      match dv with
      | DvEnumString => (2 <=? count_occ (fun v => enabled_ok v && vhas vp_default v) (i_variants it))%nat
      | _ => false
      end
  | RDefaultArity =>
      is_enum it &&
      match dv with
      | DvEnumString =>
          existsb (fun v => enabled_ok v && vhas vp_default v &&
                            negb (is_some (single_field (v_fields v)))) (i_variants it)
      | DvDisplay =>
          existsb (fun v => enabled_ok v && vhas vp_default v && negb (vhas vp_transparent v) &&
                            vhas (fun p => negb (is_some (vp_to_string p))) v &&
                            negb (is_some (single_field (v_fields v)))) (i_variants it)
      | _ => false
      end
  | RTransparentArity =>
      is_enum it &&
      match dv with
      | DvDisplay | DvAsRefStr | DvIntoStaticStr | DvAsStaticStr =>
          existsb (fun v => enabled_ok v && vhas vp_transparent v &&
                            negb (is_some (single_field (v_fields v)))) (i_variants it)
      | _ => false
      end
  | RUnitPlaceholder =>
      is_enum it &&
      match dv, tprops_of it with
      | DvDisplay, Ok tp =>
          existsb (fun v => enabled_ok v && is_unit (v_fields v) && negb (vhas vp_transparent v) &&
                            negb (vhas vp_default v && vhas (fun p => negb (is_some (vp_to_string p))) v) &&
                            vhas (fun p => match capture (preferred_name (tp_style tp) (tp_prefix tp) p) with
                                           | Ok [] => false | _ => true end) v) (i_variants it)
      | _, _ => false
      end
  | RUnknownStyle =>
      is_enum it && reads_tprops dv && negb (forallb emeta_parse_ok (i_metas it))
  | ROneParseErr =>
      is_enum it &&
      match dv, tprops_of it with
      | DvEnumString, Ok tp => xorb (is_some (tp_err_ty tp)) (is_some (tp_err_fn tp))
      | _, _ => false
      end
  | RBadPropLiteral =>
      is_enum it &&
      match dv with
      | DvEnumProperty =>
          existsb (fun v => enabled_ok v &&
                            vhas (fun p => existsb (fun kv => match snd kv with LOther => true | _ => false end)
                                                   (vp_props p)) v) (i_variants it)
      | _ => false
      end
  end.

Definition all_rules : list rule :=
  [RNonEnum; RNonUnit; RLifetime; RDupVariantAttr; RDupEnumAttr; RTwoDefaults; RDefaultArity;
   RTransparentArity; RUnitPlaceholder; RUnknownStyle; ROneParseErr; RBadPropLiteral].
