(* Names.v — helpers/variant_props.rs:29-65: the name a variant prints as and the spellings it
   parses from.  Executable definitions only. *)
Require Export Strum.Model.Meta.

(* Iterator::max_by_key(|s| s.len()): the LAST element among those of maximal byte length *)
Definition max_by_len (l : list str) : option str :=
  fold_left (fun acc s => match acc with
                          | None => Some s
                          | Some a => if (length s <? length a)%nat then Some a else Some s
                          end) l None.

(* variant_props.rs:29-32 *)
Definition ident_as_str (st : option case_style) (p : vprops) : str := convert_case st (vp_ident p).

(* variant_props.rs:34-52 *)
Definition preferred_name (st : option case_style) (prefix : option str) (p : vprops) : str :=
  let out := match vp_to_string p with
             | Some t => t
             | None => match max_by_len (vp_serialize p) with
                       | Some s => s
                       | None => ident_as_str st p
                       end
             end in
  match prefix with Some pf => pf ++ out | None => out end.

(* variant_props.rs:54-65 *)
Definition serializations (st : option case_style) (p : vprops) : list str :=
  let attrs := vp_serialize p ++ (match vp_to_string p with Some t => [t] | None => [] end) in
  match attrs with [] => [ident_as_str st p] | _ => attrs end.

(* the number of fields when the variant has exactly one (strings/mod.rs:12-49):
   Some is_ref for a single tuple / single named field, None otherwise *)
Inductive single := SingleTuple (is_ref : bool) | SingleNamed (name : str) (is_ref : bool).
Definition single_field (fs : fields) : option single :=
  match fs with
  | FTuple [f] => Some (SingleTuple (f_is_ref f))
  | FNamed [f] => Some (SingleNamed (f_name f) (f_is_ref f))
  | _ => None
  end.

Definition nfields_of (fs : fields) : nat := length (field_list fs).
