(* Heck.v — heck 0.5.0's `transform` (lib.rs:69-159) with its lowercase /
   uppercase / capitalize word functions, the eight case traits strum uses, and
   strum's own case_style.rs (CaseStyle::from_str, convert_case, snakify).
   ASCII identifiers only (documented limit of the model). *)
Require Export Strum.Model.Bytes.
Local Open Scope char_scope.

Inductive mode := MBoundary | MLower | MUpper.
Definition mode_eqb a b :=
  match a, b with MBoundary, MBoundary | MLower, MLower | MUpper, MUpper => true | _, _ => false end.

(* inner `while let` loop on one alphanumeric segment.
   cur = reversed characters of word[init..i) *)
Fixpoint seg_words (w : str) (m : mode) (cur : str) : list str :=
  match w with
  | [] => []
  | c :: rest =>
    match rest with
    | [] => [rev (c :: cur)]
    | next :: _ =>
      let next_mode := if is_lower c then MLower else if is_upper c then MUpper else m in
      if mode_eqb next_mode MLower && is_upper next then
        rev (c :: cur) :: seg_words rest MBoundary []
      else if mode_eqb m MUpper && is_upper c && is_lower next then
        rev cur :: seg_words rest MBoundary [c]
      else seg_words rest next_mode (c :: cur)
    end
  end.

(* s.split(|c| !c.is_alphanumeric()) *)
Fixpoint split_alnum (s : str) (cur : str) : list str :=
  match s with
  | [] => [rev cur]
  | c :: r => if is_alnum c then split_alnum r (c :: cur) else rev cur :: split_alnum r []
  end.

Definition heck_words (s : str) : list str :=
  flat_map (fun seg => seg_words seg MBoundary []) (split_alnum s []).

Definition lowercase : str -> str := map to_lower.
Definition uppercase : str -> str := map to_upper.
Definition capitalize (w : str) : str :=
  match w with [] => [] | c :: r => to_upper c :: lowercase r end.

Fixpoint join (sep : str) (ws : list str) : str :=
  match ws with [] => [] | [w] => w | w :: r => w ++ sep ++ join sep r end.

Definition to_snake s := join ["_"] (map lowercase (heck_words s)).
Definition to_kebab s := join ["-"] (map lowercase (heck_words s)).
Definition to_shouty_snake s := join ["_"] (map uppercase (heck_words s)).
Definition to_title s := join [" "] (map capitalize (heck_words s)).
Definition to_train s := join ["-"] (map capitalize (heck_words s)).
Definition to_upper_camel s := join [] (map capitalize (heck_words s)).
Definition to_lower_camel s :=
  join [] (match heck_words s with [] => [] | w :: r => lowercase w :: map capitalize r end).

(* case_style.rs:10-24 *)
Inductive case_style :=
  | CamelCase | KebabCase | MixedCase | ShoutySnakeCase | SnakeCase | TitleCase
  | UpperCase | LowerCase | ScreamingKebabCase | PascalCase | TrainCase.

(* case_style.rs:58-81 *)
Definition style_table : list (string * case_style) :=
  [ ("PascalCase", PascalCase); ("camel_case", PascalCase);
    ("camelCase", CamelCase);
    ("snake_case", SnakeCase); ("snek_case", SnakeCase);
    ("kebab-case", KebabCase); ("kebab_case", KebabCase);
    ("SCREAMING-KEBAB-CASE", ScreamingKebabCase);
    ("SCREAMING_SNAKE_CASE", ShoutySnakeCase); ("shouty_snake_case", ShoutySnakeCase);
    ("shouty_snek_case", ShoutySnakeCase);
    ("title_case", TitleCase);
    ("mixed_case", MixedCase);
    ("lowercase", LowerCase);
    ("UPPERCASE", UpperCase);
    ("Train-Case", TrainCase) ]%string.

Fixpoint assoc_str {A} (k : str) (l : list (string * A)) : option A :=
  match l with
  | [] => None
  | (k', v) :: r => if str_eqb k (s_ k') then Some v else assoc_str k r
  end.

Definition style_of_string (s : str) : option case_style := assoc_str s style_table.

(* case_style.rs:87-117 *)
Definition convert_case (st : option case_style) (id : str) : str :=
  match st with
  | None => id
  | Some PascalCase => to_upper_camel id
  | Some KebabCase => to_kebab id
  | Some MixedCase => to_lower_camel id
  | Some ShoutySnakeCase => to_shouty_snake id
  | Some SnakeCase => to_snake id
  | Some TitleCase => to_title id
  | Some UpperCase => uppercase id
  | Some LowerCase => lowercase id
  | Some ScreamingKebabCase => uppercase (to_kebab id)
  | Some TrainCase => to_train id
  | Some CamelCase =>
      match to_upper_camel id with [] => [] | c :: r => to_lower c :: r end
  end.

(* case_style.rs:165-178: snake_case, then "_" before every digit that follows a non-digit *)
Fixpoint snakify_go (prev : option ascii) (s : str) : str :=
  match s with
  | [] => []
  | c :: r =>
    (if is_digit c && match prev with Some p => negb (is_digit p) | None => false end
     then ["_"; c] else [c]) ++ snakify_go (Some c) r
  end.
Definition snakify (id : str) : str := snakify_go None (to_snake id).
