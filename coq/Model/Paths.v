(* Paths.v — C19: a checker for the names generated code refers to, and a small model of Rust name
   resolution against which the checker is proved sound (Proofs/PathsP.v).
   The references are extracted from the REAL generated tokens by harness/genprobe (a syn visitor);
   this file is executable (the checker is extracted and run on them). *)
Require Export Strum.Model.Bytes.
Local Open Scope string_scope.

Record pref := { p_abs : bool;          (* written with a leading `::` *)
                 p_segs : list str }.   (* the identifiers of the segments *)

Inductive gref :=
  | GPath (p : pref)       (* a path in expression / type / pattern / trait position *)
  | GMacro (p : pref)      (* the path of a macro invocation *)
  | GUse (p : pref).       (* the path of a `use` declaration inside generated code *)

Record pcfg := {
  c_strum : pref;              (* the configured strum path: `::strum` unless #[strum(crate = "..")] *)
  c_binders : list str;        (* names the derive input or the generated code itself binds: the enum, its generic
                                  parameters, generated types / fns / consts, pattern bindings, `use .. as x` aliases *)
  c_user : list pref           (* paths the USER wrote in the derive input (field types, discriminant expressions,
                                  attribute arguments): re-emitted verbatim, not the generator's choice *)
}.

Definition pref_eqb (a b : pref) : bool :=
  Bool.eqb (p_abs a) (p_abs b) &&
  (fix go (x y : list str) := match x, y with
                              | [], [] => true
                              | s :: x', t :: y' => str_eqb s t && go x' y'
                              | _, _ => false
                              end) (p_segs a) (p_segs b).
Definition mem_pref (p : pref) (l : list pref) : bool := existsb (pref_eqb p) l.

Fixpoint seg_prefix (pre segs : list str) : bool :=
  match pre, segs with
  | [], _ => true
  | s :: pre', t :: segs' => str_eqb s t && seg_prefix pre' segs'
  | _ :: _, [] => false
  end.
(* p goes through the configured strum path *)
Definition via_strum (c : pcfg) (p : pref) : bool :=
  Bool.eqb (p_abs (c_strum c)) (p_abs p) && seg_prefix (p_segs (c_strum c)) (p_segs p).

Definition mem_s (x : str) (l : list string) : bool := existsb (fun k => str_eqb x (s_ k)) l.

(* names of the core prelude (edition 2021) and further names that every scope resolves into core *)
Definition core_prelude : list string :=
  [ "Option"; "Some"; "None"; "Result"; "Ok"; "Err"; "Default"; "Iterator"; "DoubleEndedIterator";
    "ExactSizeIterator"; "IntoIterator"; "Extend"; "FromIterator"; "Clone"; "Copy"; "Send"; "Sync"; "Sized"; "Unpin";
    "Drop"; "Fn"; "FnMut"; "FnOnce"; "AsRef"; "AsMut"; "Into"; "From"; "TryFrom"; "TryInto"; "PartialEq"; "Eq";
    "PartialOrd"; "Ord"; "Debug"; "Hash"; "drop" ].
Definition prims : list string :=
  [ "usize"; "isize"; "u8"; "u16"; "u32"; "u64"; "u128"; "i8"; "i16"; "i32"; "i64"; "i128"; "bool"; "char"; "str";
    "f32"; "f64"; "Self"; "self" ].
(* names that only the std / alloc prelude provides *)
Definition std_prelude : list string := [ "String"; "Vec"; "Box"; "ToString"; "ToOwned" ].
Definition core_macros : list string :=
  [ "panic"; "concat"; "format_args"; "matches"; "assert"; "assert_eq"; "assert_ne"; "debug_assert"; "debug_assert_eq";
    "unreachable"; "unimplemented"; "todo"; "write"; "writeln"; "stringify"; "line"; "file"; "column"; "cfg";
    "compile_error"; "env"; "option_env"; "include_str"; "include_bytes"; "module_path" ].
Definition std_macros : list string :=
  [ "format"; "vec"; "print"; "println"; "eprint"; "eprintln"; "dbg"; "thread_local" ].
Definition shadowable : list string := [ "core"; "std"; "alloc" ].

Definition first_seg (p : pref) : option str := hd_error (p_segs p).

(* ---- the checker ---- *)
Definition path_ok (c : pcfg) (p : pref) : bool :=
  mem_pref p (c_user c) ||
  if p_abs p then
    match first_seg p with
    | Some x => str_eqb x (s_ "core") || via_strum c p
    | None => false
    end
  else
    match p_segs p with
    | [] => false
    | [x] => mem_str x (c_binders c) ||
             (negb (mem_s x shadowable) && (mem_s x core_prelude || mem_s x prims))
    | x :: _ => via_strum c p ||
                mem_str x (c_binders c) ||
                (negb (mem_s x shadowable) && (mem_s x core_prelude || mem_s x prims))
    end.

Definition macro_ok (c : pcfg) (p : pref) : bool :=
  mem_pref p (c_user c) ||
  if p_abs p then
    match first_seg p with Some x => str_eqb x (s_ "core") || via_strum c p | None => false end
  else
    match p_segs p with
    | [] => false
    | [x] => mem_s x core_macros
    | x :: _ => via_strum c p || mem_str x (c_binders c)
    end.

Definition use_ok (c : pcfg) (p : pref) : bool :=
  via_strum c p || (p_abs p && match first_seg p with Some x => str_eqb x (s_ "core") | None => false end).

Definition ref_ok (c : pcfg) (r : gref) : bool :=
  match r with GPath p => path_ok c p | GMacro p => macro_ok c p | GUse p => use_ok c p end.
Definition refs_ok (c : pcfg) (rs : list gref) : bool := forallb (ref_ok c) rs.

(* ---- a small model of name resolution (what the soundness theorem is about) ---- *)
Inductive origin :=
  | OCore            (* an item of the core crate *)
  | OStd             (* an item of std / alloc *)
  | OStrum           (* reached through the configured strum path *)
  | OBinder          (* bound by the derive input or the generated code itself *)
  | OUser (tag : nat)(* whatever the user's scope makes of it *)
  | OPrim.           (* a primitive type / Self *)

Record scope := {
  sc_items : str -> option nat;   (* names bound by the user's module (items, imports) — possibly `core`, `std`, `Option`, .. *)
  sc_no_std : bool                (* the crate is #![no_std]: no std crate, no std prelude, no std macros *)
}.

(* edition 2018+: `::x::..` names the extern crate x; a relative path looks its first segment up in
   (1) local bindings, (2) the module's items / imports, (3) the extern prelude, (4) the std/core
   prelude, (5) the language prelude *)
Definition resolve_path (c : pcfg) (sc : scope) (p : pref) : option origin :=
  if p_abs p then
    match first_seg p with
    | None => None
    | Some x =>
      if str_eqb x (s_ "core") then Some OCore
      else if via_strum c p then Some OStrum
      else if mem_s x ["std"; "alloc"] then (if sc_no_std sc then None else Some OStd)
      else None
    end
  else
    match first_seg p with
    | None => None
    | Some x =>
      if mem_str x (c_binders c) then Some OBinder
      else if via_strum c p then Some OStrum
      else match sc_items sc x with
           | Some t => Some (OUser t)
           | None =>
             if str_eqb x (s_ "core") then Some OCore
             else if mem_s x ["std"; "alloc"] then (if sc_no_std sc then None else Some OStd)
             else if mem_s x core_prelude then Some OCore
             else if mem_s x std_prelude then (if sc_no_std sc then None else Some OStd)
             else if mem_s x prims then Some OPrim
             else None
           end
    end.

(* macros: textual / prelude scope is not affected by modules named core or std; `x!` with a single
   segment is a built-in or prelude macro *)
Definition resolve_macro (c : pcfg) (sc : scope) (p : pref) : option origin :=
  match p_segs p with
  | [x] => if p_abs p then resolve_path c sc p
           else if mem_s x core_macros then Some OCore
           else if mem_s x std_macros then (if sc_no_std sc then None else Some OStd)
           else None
  | _ => resolve_path c sc p
  end.

Definition resolve (c : pcfg) (sc : scope) (r : gref) : option origin :=
  match r with
  | GPath p => resolve_path c sc p
  | GMacro p => resolve_macro c sc p
  | GUse p => resolve_path c sc p
  end.

Definition ref_pref (r : gref) : pref := match r with GPath p | GMacro p | GUse p => p end.
Definition user_written (c : pcfg) (r : gref) : bool :=
  match r with GUse _ => false | _ => mem_pref (ref_pref r) (c_user c) end.
