(* FromStr.v — macros/strings/from_string.rs (EnumString: FromStr + TryFrom<&str>).
   gen_from_str : item -> res from_str_code   transcribes from_string_inner (lines 10-196);
   run_from_str : from_str_code -> str -> fs_out   is the semantics of the emitted function body
   (phf lookup, then first matching arm of `match s`, then the fall-through expression). *)
Require Export Strum.Model.Names.
Local Open Scope char_scope.

(* ---- `LitStr::parse::<syn::Path>()` on a literal without whitespace or generic arguments ---- *)
Definition is_ident_start (c : ascii) : bool := is_alpha c || Ascii.eqb c "_".
Definition is_ident_char (c : ascii) : bool := is_alnum c || Ascii.eqb c "_".
Definition ident_shape (s : str) : bool :=
  match s with
  | [] => false
  | c :: r => is_ident_start c && forallb is_ident_char r && negb (str_eqb s ["_"])
  end.
Definition keywords : list string :=
  [ "abstract"; "as"; "async"; "await"; "become"; "box"; "break"; "const"; "continue"; "crate"; "do"; "dyn";
    "else"; "enum"; "extern"; "false"; "final"; "fn"; "for"; "if"; "impl"; "in"; "let"; "loop"; "macro";
    "match"; "mod"; "move"; "mut"; "override"; "priv"; "pub"; "ref"; "return"; "Self"; "self"; "static";
    "struct"; "super"; "trait"; "true"; "try"; "type"; "typeof"; "unsafe"; "unsized"; "use"; "virtual";
    "where"; "while"; "yield" ]%string.
Definition is_keyword (s : str) : bool := existsb (fun k => str_eqb s (s_ k)) keywords.
(* syn::Ident::parse *)
Definition ident_ok (s : str) : bool := ident_shape s && negb (is_keyword s).
(* syn::PathSegment::parse also accepts super / self / crate / Self *)
Definition seg_ok (s : str) : bool :=
  ident_shape s && (negb (is_keyword s) || existsb (fun k => str_eqb s (s_ k)) ["super"; "self"; "crate"; "Self"]%string).

(* split at "::"; a lone ':' is an error *)
Fixpoint split_colons (s : str) (cur : str) : option (list str) :=
  match s with
  | [] => Some [rev cur]
  | c :: r =>
    if Ascii.eqb c ":" then
      match r with
      | c2 :: r2 => if Ascii.eqb c2 ":" then option_map (cons (rev cur)) (split_colons r2 []) else None
      | [] => None
      end
    else split_colons r (c :: cur)
  end.
Definition path_ok (s : str) : bool :=
  match split_colons s [] with
  | Some ([] :: (_ :: _) as segs) => forallb seg_ok segs          (* leading `::` *)
  | Some segs => forallb seg_ok segs
  | None => false
  end.

(* ---- the generated code ---- *)
Inductive param := PDefault | PWith (f : str).          (* Default::default() | f() *)
Inductive params := PUnit | PTuple (l : list param) | PNamed (l : list (str * param)).

Inductive fs_arm :=
  | ArmExact (lit : str) (v : nat) (ps : params)        (* "lit" => E::V params *)
  | ArmGuard (lit : str) (v : nat) (ps : params).       (* s if s.eq_ignore_ascii_case("lit") => .. *)

Inductive fallthrough :=
  | FNotFound                                           (* Err(ParseError::VariantNotFound) *)
  | FCustom (f : str)                                   (* Err(f(s)) *)
  | FDefault (v : nat) (field : option str).            (* Ok(E::V(s.into())) / Ok(E::V { field: s.into() }) *)

Record from_str_code := {
  fs_phf : list (str * (nat * params));                 (* phf_map! entries, keys pairwise distinct *)
  fs_arms : list fs_arm;
  fs_fall : fallthrough;
  fs_custom_err : bool                                  (* `type Err` is the user's parse_err_ty *)
}.

Record fs_state := {
  st_default_seen : bool;
  st_fall : fallthrough;
  st_custom_err : bool;
  st_keys : list str;                                   (* the HashSet of phf keys *)
  st_ci : list str;                                     (* spellings of case-insensitive variants seen so far (phf only) *)
  st_phf : list (str * (nat * params));
  st_arms : list fs_arm
}.

Definition named_param (f : field) : res (str * param) :=
  m <- fprops_of f ;;
  match m with
  | Some d => if path_ok d then Ok (f_name f, PWith d) else Err GBadPath
  | None => Ok (f_name f, PDefault)
  end.

(* from_string.rs:82-114 *)
Definition fs_params (p : vprops) (fs : fields) : res params :=
  match fs with
  | FUnit => Ok PUnit
  | FTuple l =>
      match vp_default_with p with
      | Some d => if path_ok d then Ok (PTuple [PWith d]) else Err GBadPath
      | None => Ok (PTuple (map (fun _ => PDefault) l))
      end
  | FNamed l => ps <- mapM named_param l ;; Ok (PNamed ps)
  end.

(* one serialization of one variant (from_string.rs:121-151) *)
(* a key that an EARLIER case-insensitive spelling matches is left to that spelling's guard arm (which the
   plain match reaches first); otherwise the first insertion of a key wins *)
Definition shadowed (k : str) (st : fs_state) : bool := existsb (fun c => eq_ic_str c k) (st_ci st).
Definition fs_add_key (k : str) (tgt : nat * params) (st : fs_state) : fs_state :=
  if shadowed k st || mem_str k (st_keys st) then st else
  {| st_default_seen := st_default_seen st; st_fall := st_fall st; st_custom_err := st_custom_err st;
     st_keys := k :: st_keys st; st_ci := st_ci st; st_phf := st_phf st ++ [(k, tgt)]; st_arms := st_arms st |}.
Definition fs_add_arm (a : fs_arm) (st : fs_state) : fs_state :=
  {| st_default_seen := st_default_seen st; st_fall := st_fall st; st_custom_err := st_custom_err st;
     st_keys := st_keys st; st_ci := st_ci st; st_phf := st_phf st; st_arms := st_arms st ++ [a] |}.
Definition fs_add_ci (l : str) (st : fs_state) : fs_state :=
  {| st_default_seen := st_default_seen st; st_fall := st_fall st; st_custom_err := st_custom_err st;
     st_keys := st_keys st; st_ci := st_ci st ++ [l]; st_phf := st_phf st; st_arms := st_arms st |}.

Definition fs_serialization (use_phf ci : bool) (idx : nat) (ps : params) (st : fs_state) (lit : str) : fs_state :=
  if use_phf then
    let st1 := fs_add_key lit (idx, ps) st in
    if ci then
      let st2 := fs_add_key (lower_str lit) (idx, ps) st1 in
      let st3 := fs_add_key (upper_str lit) (idx, ps) st2 in
      fs_add_arm (ArmGuard lit idx ps) (fs_add_ci lit st3)
    else st1
  else fs_add_arm (if ci then ArmGuard lit idx ps else ArmExact lit idx ps) st.

(* the body of `for variant in variants` (from_string.rs:43-146) *)
Definition fs_variant (tp : tprops) (st : fs_state) (idx : nat) (v : variant) : res fs_state :=
  p <- vprops_of v ;;
  if vp_disabled p then Ok st else
  if vp_default p then
    if st_default_seen st then Err (GOccurrence (s_ "default")) else
    match single_field (v_fields v) with
    | Some (SingleTuple _) =>
        Ok {| st_default_seen := true; st_fall := FDefault idx None; st_custom_err := false;
              st_keys := st_keys st; st_ci := st_ci st; st_phf := st_phf st; st_arms := st_arms st |}
    | Some (SingleNamed n _) =>
        Ok {| st_default_seen := true; st_fall := FDefault idx (Some n); st_custom_err := false;
              st_keys := st_keys st; st_ci := st_ci st; st_phf := st_phf st; st_arms := st_arms st |}
    | None => Err GDefaultField
    end
  else
    ps <- fs_params p (v_fields v) ;;
    let ci := match vp_aci p with Some b => b | None => tp_aci tp end in
    Ok (fold_left (fs_serialization (tp_phf tp) ci idx ps) (serializations (tp_style tp) p) st).

Fixpoint fs_loop (tp : tprops) (st : fs_state) (idx : nat) (vs : list variant) : res fs_state :=
  match vs with
  | [] => Ok st
  | v :: r => st' <- fs_variant tp st idx v ;; fs_loop tp st' (S idx) r
  end.

(* from_string.rs:10-196 *)
Definition gen_from_str (it : item) : res from_str_code :=
  vs <- enum_variants it ;;
  tp <- tprops_of it ;;
  init <- match tp_err_ty tp, tp_err_fn tp with
          | None, None => Ok (FNotFound, false)
          | Some _, Some f => Ok (FCustom f, true)
          | _, _ => Err GMissingParseErr
          end ;;
  st <- fs_loop tp {| st_default_seen := false; st_fall := fst init; st_custom_err := snd init;
                      st_keys := []; st_ci := []; st_phf := []; st_arms := [] |} 0 vs ;;
  Ok {| fs_phf := st_phf st; fs_arms := st_arms st; fs_fall := st_fall st; fs_custom_err := st_custom_err st |}.

(* ---- semantics of the emitted from_str ---- *)
Inductive fs_out :=
  | OVariant (v : nat) (ps : params)             (* Ok(E::V params) *)
  | OCapture (v : nat) (field : option str) (input : str)   (* Ok(E::V(input.into())) *)
  | ONotFound                                     (* Err(strum::ParseError::VariantNotFound) *)
  | OCustom (f : str) (arg : str).                (* Err(f(arg)) — f called exactly once, with arg *)

Definition arm_matches (s : str) (a : fs_arm) : bool :=
  match a with ArmExact l _ _ => str_eqb s l | ArmGuard l _ _ => eq_ic_str s l end.
Definition arm_target (a : fs_arm) : nat * params :=
  match a with ArmExact _ v ps | ArmGuard _ v ps => (v, ps) end.

Definition run_fall (f : fallthrough) (s : str) : fs_out :=
  match f with
  | FNotFound => ONotFound
  | FCustom fn => OCustom fn s
  | FDefault v fld => OCapture v fld s
  end.

Definition run_from_str (c : from_str_code) (s : str) : fs_out :=
  match assoc_key s (fs_phf c) with
  | Some (v, ps) => OVariant v ps
  | None =>
    match find (arm_matches s) (fs_arms c) with
    | Some a => let '(v, ps) := arm_target a in OVariant v ps
    | None => run_fall (fs_fall c) s
    end
  end.

(* TryFrom<&str>::try_from delegates to FromStr::from_str (from_string.rs:209-228) *)
Definition run_try_from (c : from_str_code) (s : str) : fs_out := run_from_str c s.

(* ---- the pinned (pre-fix) phf branch, for Legacy.v: every key pushed unconditionally; phf_map!
   rejects the expansion when two keys coincide ---- *)
Definition fs_serialization_legacy_keys (ci : bool) (lit : str) : list str :=
  if ci then [lit; lower_str lit; upper_str lit] else [lit].
Fixpoint has_dup (l : list str) : bool :=
  match l with [] => false | x :: r => mem_str x r || has_dup r end.
