(* Misc.v — macros/enum_is.rs (EnumIs), enum_try_as.rs (EnumTryAs), enum_messages.rs (EnumMessage),
   enum_properties.rs (EnumProperty), enum_discriminants.rs (EnumDiscriminants). *)
Require Export Strum.Model.Display.
Local Open Scope char_scope.

(* ---------------- EnumIs (enum_is.rs:6-47, repaired: attribute errors are reported) ---------------- *)
Record is_method := { im_name : str; im_variant : nat }.
Fixpoint is_methods (idx : nat) (vs : list variant) : res (list is_method) :=
  match vs with
  | [] => Ok []
  | v :: r =>
    p <- vprops_of v ;;
    rest <- is_methods (S idx) r ;;
    if vp_disabled p then Ok rest
    else Ok ({| im_name := s_ "is_" ++ snakify (v_ident v); im_variant := idx |} :: rest)
  end.
Definition gen_is (it : item) : res (list is_method) :=
  vs <- enum_variants it ;; is_methods 0 vs.
(* match self { &E::V {..} => true, _ => false } *)
Definition run_is (m : is_method) (vi : nat) : bool := Nat.eqb (im_variant m) vi.

(* ---------------- EnumTryAs (enum_try_as.rs:6-81) ---------------- *)
Record tryas_method := { tm_base : str; tm_variant : nat; tm_nfields : nat }.
Fixpoint tryas_methods (idx : nat) (vs : list variant) : res (list tryas_method) :=
  match vs with
  | [] => Ok []
  | v :: r =>
    p <- vprops_of v ;;
    rest <- tryas_methods (S idx) r ;;
    if vp_disabled p then Ok rest else
    match v_fields v with
    | FTuple fs => Ok ({| tm_base := s_ "try_as_" ++ snakify (v_ident v); tm_variant := idx;
                          tm_nfields := length fs |} :: rest)
    | _ => Ok rest
    end
  end.
Definition gen_try_as (it : item) : res (list tryas_method) :=
  vs <- enum_variants it ;; tryas_methods 0 vs.
(* match self { E::V(x, xx, ..) => Some((x, xx, ..)), _ => None }: the positions returned, in order *)
Definition run_try_as (m : tryas_method) (vi : nat) : option (list nat) :=
  if Nat.eqb (tm_variant m) vi then Some (seq 0 (tm_nfields m)) else None.

(* ---------------- EnumMessage (enum_messages.rs:7-145) ---------------- *)
(* strip ONE leading space (enum_messages.rs:78-86) *)
Definition strip1 (s : str) : str := match s with " " :: r => r | _ => s end.
(* one line as is; several: concat!(concat!(line, "\n"), ..) *)
Definition doc_text (docs : list str) : str :=
  match map strip1 docs with
  | [one] => one
  | ls => flat_map (fun l => l ++ ["010"]) ls
  end.

Record msg_code := {
  mg_msg : list (nat * str);  mg_msg_wild : bool;
  mg_det : list (nat * str);  mg_det_wild : bool;
  mg_doc : list (nat * str);  mg_doc_wild : bool;
  mg_ser : list (nat * list str)
}.

Record msg_state := { ms_msg : list (nat * str); ms_det : list (nat * str); ms_doc : list (nat * str);
                      ms_ser : list (nat * list str) }.

Fixpoint msg_loop (tp : tprops) (idx : nat) (vs : list variant) : res msg_state :=
  match vs with
  | [] => Ok {| ms_msg := []; ms_det := []; ms_doc := []; ms_ser := [] |}
  | v :: r =>
    p <- vprops_of v ;;
    rest <- msg_loop tp (S idx) r ;;
    let ser := (idx, serializations (tp_style tp) p) :: ms_ser rest in
    if vp_disabled p then
      Ok {| ms_msg := ms_msg rest; ms_det := ms_det rest; ms_doc := ms_doc rest; ms_ser := ser |}
    else
      let m := match vp_message p with Some s => [(idx, s)] | None => [] end in
      let d := match vp_detailed p with
               | Some s => [(idx, s)]
               | None => match vp_message p with Some s => [(idx, s)] | None => [] end
               end in
      let dc := match vp_docs p with [] => [] | ds => [(idx, doc_text ds)] end in
      Ok {| ms_msg := m ++ ms_msg rest; ms_det := d ++ ms_det rest; ms_doc := dc ++ ms_doc rest; ms_ser := ser |}
  end.

Definition gen_message (it : item) : res msg_code :=
  vs <- enum_variants it ;;
  tp <- tprops_of it ;;
  st <- msg_loop tp 0 vs ;;
  let n := length vs in
  Ok {| mg_msg := ms_msg st; mg_msg_wild := (length (ms_msg st) <? n)%nat;
        mg_det := ms_det st; mg_det_wild := (length (ms_det st) <? n)%nat;
        mg_doc := ms_doc st; mg_doc_wild := (length (ms_doc st) <? n)%nat;
        mg_ser := ms_ser st |}.

Fixpoint assoc_nat {A} (k : nat) (l : list (nat * A)) : option A :=
  match l with [] => None | (k', x) :: r => if Nat.eqb k k' then Some x else assoc_nat k r end.

(* Some(Some s) = Some("s"); Some None = the wildcard's None; None = no applicable arm *)
Definition run_getter (arms : list (nat * str)) (wild : bool) (vi : nat) : option (option str) :=
  match assoc_nat vi arms with
  | Some s => Some (Some s)
  | None => if wild then Some None else None
  end.
Definition run_message (c : msg_code) := run_getter (mg_msg c) (mg_msg_wild c).
Definition run_detailed (c : msg_code) := run_getter (mg_det c) (mg_det_wild c).
Definition run_documentation (c : msg_code) := run_getter (mg_doc c) (mg_doc_wild c).
Definition run_serializations (c : msg_code) (vi : nat) : option (list str) := assoc_nat vi (mg_ser c).

(* ---------------- EnumProperty (enum_properties.rs:22-119, repaired: no todo!()) ---------------- *)
Record prop_arms := { pa_str : list (str * str); pa_int : list (str * Z); pa_bool : list (str * bool) }.

Fixpoint bucket (kvs : list (str * lit)) : res prop_arms :=
  match kvs with
  | [] => Ok {| pa_str := []; pa_int := []; pa_bool := [] |}
  | (k, l) :: r =>
    match l with
    | LOther => Err GBadProp          (* reported when the entry is reached, before later entries *)
    | _ =>
      rest <- bucket r ;;
      match l with
      | LStr s => Ok {| pa_str := (k, s) :: pa_str rest; pa_int := pa_int rest; pa_bool := pa_bool rest |}
      | LInt z => Ok {| pa_str := pa_str rest; pa_int := (k, z) :: pa_int rest; pa_bool := pa_bool rest |}
      | LBool b => Ok {| pa_str := pa_str rest; pa_int := pa_int rest; pa_bool := (k, b) :: pa_bool rest |}
      | LOther => Err GBadProp
      end
    end
  end.

Fixpoint props_loop (idx : nat) (vs : list variant) : res (list (nat * prop_arms)) :=
  match vs with
  | [] => Ok []
  | v :: r =>
    p <- vprops_of v ;;
    if vp_disabled p then props_loop (S idx) r else
    a <- bucket (vp_props p) ;;
    rest <- props_loop (S idx) r ;;
    Ok ((idx, a) :: rest)
  end.

Record props_code := { pc_arms : list (nat * prop_arms); pc_wild : bool }.
Definition gen_props (it : item) : res props_code :=
  vs <- enum_variants it ;;
  tp <- tprops_of it ;;
  arms <- props_loop 0 vs ;;
  Ok {| pc_arms := arms; pc_wild := (length arms <? length vs)%nat |}.

(* match self { &E::V.. => match prop { "k" => Some(x), .., _ => None }, .., _ => None } *)
Definition run_get_str (c : props_code) (vi : nat) (k : str) : option (option str) :=
  match assoc_nat vi (pc_arms c) with
  | Some a => Some (assoc_key k (pa_str a))
  | None => if pc_wild c then Some None else None
  end.
Definition run_get_int (c : props_code) (vi : nat) (k : str) : option (option Z) :=
  match assoc_nat vi (pc_arms c) with
  | Some a => Some (assoc_key k (pa_int a))
  | None => if pc_wild c then Some None else None
  end.
Definition run_get_bool (c : props_code) (vi : nat) (k : str) : option (option bool) :=
  match assoc_nat vi (pc_arms c) with
  | Some a => Some (assoc_key k (pa_bool a))
  | None => if pc_wild c then Some None else None
  end.

(* ---------------- EnumDiscriminants (enum_discriminants.rs:14-203) ---------------- *)
Definition default_derives : list str := map s_ ["Clone"; "Copy"; "Debug"; "PartialEq"; "Eq"]%string.

Record discr_code := {
  dc_item : item;                      (* the generated enum, as an item the other models apply to *)
  dc_derives : list str;               (* Clone, Copy, Debug, PartialEq, Eq, then the requested ones *)
  dc_docs : list str;
  dc_others : list str;                (* pass-through attributes *)
  dc_from : list (nat * nat);          (* arms shared by From<E> and From<&E>: source variant -> generated variant *)
  dc_into_discriminant : bool          (* IntoDiscriminant emitted (visibility unspecified or pub) *)
}.

Definition discr_variant (v : variant) : variant :=
  {| v_ident := v_ident v; v_fields := FUnit; v_metas := filter is_doc (v_metas v) ++ v_dmetas v;
     v_discr := v_discr v; v_dmetas := [] |}.

Definition gen_discriminants (it : item) : res discr_code :=
  vs <- enum_variants it ;;
  tp <- tprops_of it ;;
  let name := match tp_dname tp with Some n => n | None => i_ident it ++ s_ "Discriminants" end in
  let vis := match tp_dvis tp with Some v => v | None => i_vis it end in
  Ok {| dc_item := {| i_kind := KEnum; i_ident := name; i_lifetimes := 0; i_tparams := 0; i_cparams := 0;
                      i_vis := vis;
                      i_metas := flat_map (fun m => match m with DStrum ms => ms | _ => [] end) (i_dmetas it);
                      i_dmetas := []; i_repr := tp_repr tp;
                      i_variants := map discr_variant vs |};
        dc_derives := default_derives ++ tp_dderives tp;
        dc_docs := tp_ddocs tp;
        dc_others := tp_dothers tp;
        dc_from := map (fun k => (k, k)) (seq 0 (length vs));
        dc_into_discriminant := match tp_dvis tp with None | Some VPub => true | _ => false end |}.

(* From<E>::from(e), From<&E>::from(&e), e.discriminant() all run the same match *)
Definition run_discr_from (c : discr_code) (vi : nat) : option nat := assoc_nat vi (dc_from c).
