(* ReprProg.v — the body of the generated `from_repr` as a PROGRAM of a small deep-embedded language, so that the
   constant chain and the match arms the real macro emits (read from the REAL expansion, `rustc -Zunpretty=expanded`
   of the corpus crate, by harness/genprobe `structfr`) can be compared with it token by token on every run.
   Proofs/ReprProgP.v shows that compiling-and-running this program is exactly `gen_from_repr` / `run_from_repr` of
   Model/Repr.v, on which the C06 theorems are stated.  Executable, no proofs. *)
Require Export Strum.Model.Repr.
Local Open Scope Z_scope.

(* the right-hand side of `const <V>_DISCRIMINANT: T = ..;` *)
Inductive cexpr :=
  | CZero                 (* `0`: the first declared variant without an explicit discriminant *)
  | CPrevPlus1            (* `<PREV>_DISCRIMINANT + 1`, PREV being the constant defined immediately before *)
  | COwn (z : Z).         (* the variant's own explicit discriminant expression, copied verbatim (value z) *)

(* `v if v == <C>_DISCRIMINANT => Some(E::V(defaults..))`: position of the constant in the chain, variant, field count *)
Record parm := { pa_const : nat; pa_variant : nat; pa_nfields : nat }.

Record repr_prog := {
  rp_ty : repr;                 (* type of the parameter and of every constant *)
  rp_consts : list cexpr;       (* one per DECLARED variant, in declaration order *)
  rp_arms : list parm;          (* one per ENABLED variant, in declaration order; then `_ => None` *)
  rp_const_fn : bool
}.

(* from_repr.rs:51-97: the loop over the variants.  `first` mirrors `prev_const_var_ident.is_none()` *)
Fixpoint prog_walk (idx : nat) (first : bool) (vs : list variant) : res (list cexpr * list parm) :=
  match vs with
  | [] => Ok ([], [])
  | v :: r =>
    p <- vprops_of v ;;
    let ce := match v_discr v with
              | Some z => COwn z
              | None => if first then CZero else CPrevPlus1
              end in
    rest <- prog_walk (S idx) false r ;;
    let '(cs, arms) := rest in
    if vp_disabled p then Ok (ce :: cs, arms)
    else Ok (ce :: cs, {| pa_const := idx; pa_variant := idx; pa_nfields := length (field_list (v_fields v)) |} :: arms)
  end.

Definition gen_repr_prog (it : item) : res repr_prog :=
  let ty := discr_ty (i_repr it) in
  if (0 <? i_lifetimes it)%nat then Err GLifetime else
  vs <- enum_variants it ;;
  w <- prog_walk 0 true vs ;;
  Ok {| rp_ty := ty; rp_consts := fst w; rp_arms := snd w;
        rp_const_fn := forallb (fun a => (pa_nfields a =? 0)%nat) (snd w) |}.

(* rustc's constant evaluation of the chain in the type T: a constant that does not fit T (overflow of `+ 1`, an explicit
   value out of range) or `PREV + 1` without a previous constant is a compile error: None *)
Fixpoint eval_chain (ty : repr) (prev : option Z) (cs : list cexpr) : option (list Z) :=
  match cs with
  | [] => Some []
  | c :: r =>
    match (match c with CZero => Some 0 | COwn z => Some z | CPrevPlus1 => option_map (fun p => p + 1) prev end) with
    | Some v => if in_range ty v then option_map (cons v) (eval_chain ty (Some v) r) else None
    | None => None
    end
  end.

(* the match: the first arm whose guard `v == C` holds *)
Fixpoint run_parms (env : list Z) (arms : list parm) (x : Z) : option (nat * nat) :=
  match arms with
  | [] => None
  | a :: r =>
    match nth_error env (pa_const a) with
    | Some c => if c =? x then Some (pa_variant a, pa_nfields a) else run_parms env r x
    | None => run_parms env r x     (* (an unknown constant is a compile error; never happens for evaluated chains) *)
    end
  end.

(* compile (evaluate the constants) and run: None = does not compile *)
Definition run_repr_prog (p : repr_prog) (x : Z) : option (option (nat * nat)) :=
  match eval_chain (rp_ty p) None (rp_consts p) with
  | Some env => Some (run_parms env (rp_arms p) x)
  | None => None
  end.

(* ---- from_repr.rs:13-34: which type `discriminant` has, however #[repr] is WRITTEN ----
   every hint of every #[repr(..)] attribute is inspected in source order; a hint that is one of the ten integer types replaces
   the current choice (initially usize); hints with arguments (align(8), packed(2)) and C / transparent are skipped *)
Inductive rhint := HInt (r : repr) | HOtherHint.
Definition scan_hint (acc : repr) (h : rhint) : repr := match h with HInt r => r | HOtherHint => acc end.
Definition scan_attr (acc : repr) (hs : list rhint) : repr := fold_left scan_hint hs acc.
Definition scan_repr (attrs : list (list rhint)) : repr := fold_left scan_attr attrs RUsize.
(* the integer hints among all hints, in source order *)
Definition int_hints (hs : list rhint) : list repr := flat_map (fun h => match h with HInt r => [r] | HOtherHint => [] end) hs.
