(* IterProg.v — the arithmetic of the generated iterator as PROGRAMS of a small deep-embedded language, so that the
   method bodies the real generator emits can be translated token by token (harness/genprobe `struct EnumIter`) and
   compared with these programs on every run.  Proofs/IterProgP.v shows that running the programs is exactly
   `it_nth` / `it_next_back` / `it_len` of Model/Iter.v, on which the C05 theorems are stated.  Executable. *)
Require Export Strum.Model.Iter.
Local Open Scope string_scope.
Local Open Scope Z_scope.

Inductive iexp :=
  | EIdx | EBack                    (* self.idx | self.back_idx *)
  | EVar (x : string)               (* a `let`-bound local or the parameter `n` *)
  | ELit (z : Z)                    (* an integer literal *)
  | ECount                          (* the literal #variant_count *)
  | EAdd (a b : iexp)               (* a + b : panics on overflow in debug builds, wraps in release builds *)
  | ESub (a b : iexp)               (* a - b : idem *)
  | ESat (a b : iexp).              (* a.saturating_add(b) *)

Inductive icond := CGt (a b : iexp) | CGe (a b : iexp).

Inductive istmt :=
  | SLet (x : string) (e : iexp) (k : istmt)        (* let x = e; k *)
  | SIf (c : icond) (t e : istmt)                   (* if c { t } else { e } *)
  | SSetIdx (e : iexp) (k : istmt)                  (* self.idx = e; k *)
  | SSetBack (e : iexp) (k : istmt)                 (* self.back_idx = e; k *)
  | SNone                                           (* ::core::option::Option::None *)
  | SGet (e : iexp)                                 (* Self::get(self, e) *)
  | SHint (e : iexp).                               (* (e, Some(e)) *)

(* the result of a method body: an optional index handed to `get`, or the size hint *)
Inductive iresult := RItem (k : option Z) | RHint (n : Z).

Section Run.
Variable W : Z.
Variable o : ovf.
Variable cnt : Z.

Definition env := list (string * Z).
Fixpoint lookup (x : string) (e : env) : Z :=
  match e with [] => 0 | (y, v) :: r => if String.eqb x y then v else lookup x r end.

Fixpoint eval (s : ist) (en : env) (e : iexp) : M Z :=
  match e with
  | EIdx => Ret (idx s)
  | EBack => Ret (back s)
  | EVar x => Ret (lookup x en)
  | ELit z => Ret z
  | ECount => Ret cnt
  | EAdd a b => mbind (eval s en a) (fun x => mbind (eval s en b) (fun y => add_u W o x y))
  | ESub a b => mbind (eval s en a) (fun x => mbind (eval s en b) (fun y => sub_u W o x y))
  | ESat a b => mbind (eval s en a) (fun x => mbind (eval s en b) (fun y => Ret (sat_add W x y)))
  end.

Definition eval_cond (s : ist) (en : env) (c : icond) : M bool :=
  match c with
  | CGt a b => mbind (eval s en a) (fun x => mbind (eval s en b) (fun y => Ret (x >? y)))
  | CGe a b => mbind (eval s en a) (fun x => mbind (eval s en b) (fun y => Ret (x >=? y)))
  end.

Fixpoint exec (s : ist) (en : env) (p : istmt) : M (ist * iresult) :=
  match p with
  | SLet x e k => mbind (eval s en e) (fun v => exec s ((x, v) :: en) k)
  | SIf c t e => mbind (eval_cond s en c) (fun b => if b then exec s en t else exec s en e)
  | SSetIdx e k => mbind (eval s en e) (fun v => exec {| idx := v; back := back s |} en k)
  | SSetBack e k => mbind (eval s en e) (fun v => exec {| idx := idx s; back := v |} en k)
  | SNone => Ret (s, RItem None)
  | SGet e => mbind (eval s en e) (fun v => Ret (s, RItem (Some v)))
  | SHint e => mbind (eval s en e) (fun v => Ret (s, RHint v))
  end.
End Run.

(* ---- the method bodies emitted by enum_iter.rs:114-180 (repaired code) ---- *)
(* fn nth(&mut self, n: usize):
     let idx = self.idx.saturating_add(n).saturating_add(1);
     if idx.saturating_add(self.back_idx) > COUNT { self.idx = COUNT; None } else { self.idx = idx; Self::get(self, idx - 1) } *)
Definition prog_nth : istmt :=
  SLet "idx" (ESat (ESat EIdx (EVar "n")) (ELit 1))
    (SIf (CGt (ESat (EVar "idx") EBack) ECount)
         (SSetIdx ECount SNone)
         (SSetIdx (EVar "idx") (SGet (ESub (EVar "idx") (ELit 1))))).

(* fn next_back(&mut self):
     let back_idx = self.back_idx + 1;
     if self.idx + back_idx > COUNT { self.back_idx = COUNT; None } else { self.back_idx = back_idx; Self::get(self, COUNT - self.back_idx) } *)
Definition prog_next_back : istmt :=
  SLet "back_idx" (EAdd EBack (ELit 1))
    (SIf (CGt (EAdd EIdx (EVar "back_idx")) ECount)
         (SSetBack ECount SNone)
         (SSetBack (EVar "back_idx") (SGet (ESub ECount EBack)))).

(* fn size_hint(&self):
     let t = if self.idx + self.back_idx >= COUNT { 0 } else { COUNT - self.idx - self.back_idx }; (t, Some(t)) *)
Definition prog_size_hint : istmt :=
  SIf (CGe (EAdd EIdx EBack) ECount) (SHint (ELit 0)) (SHint (ESub (ESub ECount EIdx) EBack)).

(* next() is `self.nth(0)`, len() is `self.size_hint().0`: checked by the token reader, no arithmetic of their own *)

(* ---- printing (the format harness/genprobe uses for the real tokens) ---- *)
Fixpoint z_digits (fuel : nat) (z : Z) (acc : string) : string :=
  match fuel with
  | O => acc
  | S f => let d := String (Ascii.ascii_of_nat (48 + Z.to_nat (z mod 10))) "" in
           if z <? 10 then (d ++ acc)%string else z_digits f (z / 10) (d ++ acc)%string
  end.
Definition show_z (z : Z) : string := if z <? 0 then ("-" ++ z_digits 40 (- z) "")%string else z_digits 40 z "".

Fixpoint show_exp (cnt : Z) (e : iexp) : string :=
  match e with
  | EIdx => "idx" | EBack => "back" | EVar x => ("$" ++ x)%string | ELit z => show_z z | ECount => show_z cnt
  | EAdd a b => ("(add " ++ show_exp cnt a ++ " " ++ show_exp cnt b ++ ")")%string
  | ESub a b => ("(sub " ++ show_exp cnt a ++ " " ++ show_exp cnt b ++ ")")%string
  | ESat a b => ("(sat " ++ show_exp cnt a ++ " " ++ show_exp cnt b ++ ")")%string
  end.
Definition show_cond (cnt : Z) (c : icond) : string :=
  match c with
  | CGt a b => ("(gt " ++ show_exp cnt a ++ " " ++ show_exp cnt b ++ ")")%string
  | CGe a b => ("(ge " ++ show_exp cnt a ++ " " ++ show_exp cnt b ++ ")")%string
  end.
Fixpoint show_stmt (cnt : Z) (p : istmt) : string :=
  match p with
  | SLet x e k => ("(let " ++ x ++ " " ++ show_exp cnt e ++ " " ++ show_stmt cnt k ++ ")")%string
  | SIf c t e => ("(if " ++ show_cond cnt c ++ " " ++ show_stmt cnt t ++ " " ++ show_stmt cnt e ++ ")")%string
  | SSetIdx e k => ("(setidx " ++ show_exp cnt e ++ " " ++ show_stmt cnt k ++ ")")%string
  | SSetBack e k => ("(setback " ++ show_exp cnt e ++ " " ++ show_stmt cnt k ++ ")")%string
  | SNone => "none"
  | SGet e => ("(get " ++ show_exp cnt e ++ ")")%string
  | SHint e => ("(hint " ++ show_exp cnt e ++ ")")%string
  end.
